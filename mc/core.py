"""Core of the bounded exhaustive explorer: environment pinning, per-worker accumulators,
deterministic sharding, violation triage against known_findings.json, evidence writer, replay.

A property module (props/cNN.py) exposes

    ID, TITLE, RULE, ASSUMPTIONS
    roots(tier, seed)        -> list of JSON-able root descriptors (the shards of the search)
    explore(root, tier, ctx) -> None; drives the REAL library, records into ctx
    replay(case, ctx)        -> None; re-runs one recorded case through the same oracle
    bound(tier, seed)        -> dict describing the bound that a complete run covers

Every count in the evidence is measured by Ctx, never a constant.
"""
from __future__ import annotations

import os
import sys

# ---- environment pinning (must precede any import of reamber) ---------------------------------
VERIF_DIR = os.path.dirname(os.path.dirname(os.path.abspath(__file__)))
_REPO = os.environ.get("VERIF_REPO", "/repo")
if _REPO not in sys.path:
    sys.path.insert(0, _REPO)
if VERIF_DIR not in sys.path:
    sys.path.insert(0, VERIF_DIR)
os.environ.setdefault("PYTHONHASHSEED", "0")
os.environ.setdefault("REAMBERPY_VERIF", "1")

import collections
import hashlib
import json
import logging
import math
import time
import traceback
import warnings

warnings.filterwarnings("ignore")
logging.disable(logging.CRITICAL)

OUT_DIR = os.environ.get("VERIF_OUT", VERIF_DIR)
KNOWN_FILE = os.path.join(VERIF_DIR, "known_findings.json")
MAX_EXEMPLARS_PER_SITE = 1
MAX_SAMPLES = 6


def h64(obj) -> int:
    """Stable 64-bit hash of a canonical (repr-able) object."""
    return int.from_bytes(hashlib.blake2b(repr(obj).encode("utf8", "backslashreplace"), digest_size=8).digest(), "big")


def jsonable(x):
    """Best-effort conversion to JSON-able data for replay artefacts (exact for the types we use)."""
    import fractions

    try:
        import numpy as np
    except Exception:  # pragma: no cover
        np = None
    if isinstance(x, (str, bool, type(None))):
        return x
    if isinstance(x, int):
        return x
    if isinstance(x, float):
        if math.isnan(x):
            return "NaN"
        if math.isinf(x):
            return "inf" if x > 0 else "-inf"
        return x
    if isinstance(x, fractions.Fraction):
        return {"F": [x.numerator, x.denominator]}
    if isinstance(x, bytes):
        return {"b": x.decode("latin1")}
    if isinstance(x, dict):
        return {str(k): jsonable(v) for k, v in x.items()}
    if isinstance(x, (list, tuple, set, frozenset)):
        return [jsonable(v) for v in (sorted(x, key=repr) if isinstance(x, (set, frozenset)) else x)]
    if np is not None:
        if isinstance(x, np.generic):
            return jsonable(x.item())
        if isinstance(x, np.ndarray):
            return jsonable(x.tolist())
    return repr(x)


def unjson(x):
    """Inverse of jsonable for the tagged forms."""
    import fractions

    if isinstance(x, dict):
        if set(x) == {"F"}:
            return fractions.Fraction(x["F"][0], x["F"][1])
        if set(x) == {"b"}:
            return x["b"].encode("latin1")
        return {k: unjson(v) for k, v in x.items()}
    if isinstance(x, list):
        return [unjson(v) for v in x]
    if x == "NaN":
        return float("nan")
    return x


class Ctx:
    """Per-worker accumulator. Merged in the parent."""

    def __init__(self, prop_id: str):
        self.prop_id = prop_id
        self.states: set[int] = set()
        self.nontrivial: set[int] = set()
        self.outcomes: set[int] = set()
        self.transitions = 0
        self.evaluations = 0
        self.clauses: dict[str, list[int]] = collections.defaultdict(lambda: [0, 0])  # evaluated, violated
        self.violations: dict[tuple, dict] = {}
        self.samples: list = []
        self.caps: list[str] = []
        self.extra: collections.Counter = collections.Counter()
        self.max_depth = 0
        self.root = None  # the shard being explored (set by the runner); stored with every violation

    # --- counting -------------------------------------------------------------------------------
    def state(self, canon, nontrivial: bool = False) -> bool:
        """Registers a canonical state; returns True iff it is new to this worker."""
        k = canon if isinstance(canon, int) else h64(canon)
        new = k not in self.states
        self.states.add(k)
        if nontrivial:
            self.nontrivial.add(k)
        return new

    def transition(self, n: int = 1):
        self.transitions += n

    def case(self, n: int = 1):
        self.evaluations += n

    def outcome(self, obs):
        self.outcomes.add(obs if isinstance(obs, int) else h64(obs))

    def sample(self, s):
        if len(self.samples) < MAX_SAMPLES:
            self.samples.append(jsonable(s))

    def cap(self, msg: str):
        if msg not in self.caps:
            self.caps.append(msg)

    def depth(self, d: int):
        if d > self.max_depth:
            self.max_depth = d

    # --- oracle ---------------------------------------------------------------------------------
    def check(self, clause: str, ok: bool, *, site: dict | None = None, case=None, observed=None, expected=None) -> bool:
        """Evaluates one oracle clause. `clause` is given without the property prefix."""
        c = self.clauses[clause]
        c[0] += 1
        if ok:
            return True
        c[1] += 1
        site = site or {}
        key = (clause, json.dumps(jsonable(site), sort_keys=True))
        rec = self.violations.get(key)
        if rec is None:
            self.violations[key] = dict(
                property=self.prop_id,
                clause=f"{self.prop_id}.{clause}",
                site=jsonable(site),
                case=jsonable(case() if callable(case) else case),
                observed=jsonable(observed),
                expected=jsonable(expected),
                count=1,
                root=jsonable(self.root),
            )
        else:
            rec["count"] += 1
        return False

    def passed(self, clause: str, n: int = 1):
        self.clauses[clause][0] += n

    def export(self) -> dict:
        return dict(
            states=list(self.states),
            nontrivial=list(self.nontrivial),
            outcomes=list(self.outcomes),
            transitions=self.transitions,
            evaluations=self.evaluations,
            clauses={k: list(v) for k, v in self.clauses.items()},
            violations=list(self.violations.values()),
            samples=self.samples,
            caps=self.caps,
            extra=dict(self.extra),
            max_depth=self.max_depth,
        )


class Merged:
    def __init__(self):
        self.states: set[int] = set()
        self.nontrivial: set[int] = set()
        self.outcomes: set[int] = set()
        self.transitions = 0
        self.evaluations = 0
        self.clauses: dict[str, list[int]] = collections.defaultdict(lambda: [0, 0])
        self.violations: dict[tuple, dict] = {}
        self.samples: list = []
        self.caps: list[str] = []
        self.extra: collections.Counter = collections.Counter()
        self.max_depth = 0
        self.errors: list[str] = []

    def add(self, d: dict):
        self.states.update(d["states"])
        self.nontrivial.update(d["nontrivial"])
        self.outcomes.update(d["outcomes"])
        self.transitions += d["transitions"]
        self.evaluations += d["evaluations"]
        for k, (e, v) in d["clauses"].items():
            self.clauses[k][0] += e
            self.clauses[k][1] += v
        for v in d["violations"]:
            key = (v["clause"], json.dumps(v["site"], sort_keys=True))
            if key in self.violations:
                self.violations[key]["count"] += v["count"]
                # keep the shortest exemplar so the reported counter-example is the simplest one
                if len(json.dumps(v["case"])) < len(json.dumps(self.violations[key]["case"])):
                    cnt = self.violations[key]["count"]
                    self.violations[key] = dict(v, count=cnt)
            else:
                self.violations[key] = v
        for s in d["samples"]:
            if len(self.samples) < MAX_SAMPLES:
                self.samples.append(s)
        for c in d["caps"]:
            if c not in self.caps:
                self.caps.append(c)
        self.extra.update(d["extra"])
        self.max_depth = max(self.max_depth, d["max_depth"])


# ---- known findings -------------------------------------------------------------------------------
def load_known() -> list[dict]:
    if not os.path.exists(KNOWN_FILE):
        return []
    with open(KNOWN_FILE) as f:
        return json.load(f).get("findings", [])


def _match_value(pattern, value) -> bool:
    """A pattern matches when equal to the value; a list pattern also matches when any of its elements does."""
    if pattern == value:
        return True
    if isinstance(pattern, list):
        return any(_match_value(p, value) for p in pattern)
    return pattern == value


def match_known(v: dict, known: list[dict]):
    for k in known:
        if k.get("status") != "open":
            continue
        if k["property"] != v["property"] or k["clause"] != v["clause"]:
            continue
        site = v["site"] or {}
        if all(a in site and _match_value(p, site[a]) for a, p in k.get("match", {}).items()):
            return k
    return None


# ---- worker -----------------------------------------------------------------------------------------
_MOD = None
_TIER = None


def _init_worker(mod_name: str, tier: str):
    global _MOD, _TIER
    import importlib

    warnings.filterwarnings("ignore")
    logging.disable(logging.CRITICAL)
    _MOD = importlib.import_module(mod_name)
    _TIER = tier


def _run_root(args):
    idx, root = args
    ctx = Ctx(_MOD.ID)
    ctx.root = root
    err = None
    try:
        _MOD.explore(root, _TIER, ctx)
    except BaseException as e:  # harness error (library exceptions are caught inside the oracles)
        err = f"root {idx} {json.dumps(jsonable(root))[:300]}: {type(e).__name__}: {e}\n{traceback.format_exc()}"
    d = ctx.export()
    d["error"] = err
    return d


def run_check(mod, tier: str, seed: int, workers: int | None = None) -> int:
    import multiprocessing as mp

    t0 = time.time()
    roots = list(mod.roots(tier, seed))
    merged = Merged()
    workers = workers or int(os.environ.get("VERIF_WORKERS", "0")) or min(16, os.cpu_count() or 1)
    workers = max(1, min(workers, len(roots)))
    if workers == 1:
        _init_worker(mod.__name__, tier)
        results = map(_run_root, enumerate(roots))
        for d in results:
            e = d.pop("error")
            if e:
                merged.errors.append(e)
            merged.add(d)
    else:
        ctxm = mp.get_context("fork")
        with ctxm.Pool(workers, initializer=_init_worker, initargs=(mod.__name__, tier)) as pool:
            for d in pool.imap_unordered(_run_root, list(enumerate(roots)), chunksize=1):
                e = d.pop("error")
                if e:
                    merged.errors.append(e)
                merged.add(d)
    wall = time.time() - t0
    return finish(mod, tier, seed, merged, wall, len(roots))


def finish(mod, tier, seed, merged: Merged, wall: float, n_roots: int) -> int:
    known = load_known()
    pid = mod.ID
    unknown, known_hits = [], collections.OrderedDict()
    for key in sorted(merged.violations):
        v = merged.violations[key]
        k = match_known(v, known)
        if k is None:
            unknown.append(v)
        else:
            known_hits.setdefault(k["id"], (k, []))[1].append(v)

    rc = 0
    if merged.errors:
        for e in merged.errors[:5]:
            print("HARNESS-ERROR", e, file=sys.stderr)
        rc = 2

    for kid, (k, vs) in known_hits.items():
        n = sum(v["count"] for v in vs)
        print(f"KNOWN-FINDING: property={pid} {k['id']}: {k['what_fails']} [{n} occurrence(s) in this run]")

    replay_paths = []
    for v in unknown:
        # determinism gate: the recorded case must reproduce the same violation twice in fresh objects
        repro = []
        for _ in range(2):
            c = Ctx(pid)
            try:
                mod.replay(unjson(v["case"]), c)
            except BaseException as e:
                repro.append(("error", f"{type(e).__name__}: {e}"))
                continue
            hit = [x for x in c.violations.values() if x["clause"] == v["clause"] and x["site"] == v["site"]]
            repro.append(("hit", json.dumps(hit[0]["observed"], sort_keys=True)) if hit else ("miss", None))
        if repro[0] != repro[1] or repro[0][0] != "hit":
            # The case does not fail on its own. Re-run the whole shard it was found in: if it fails again there, the failure
            # depends on what ran before it in the same process (state leaking between calls) -- still a violation, and the
            # replay file then re-runs the shard; if not, the harness itself is nondeterministic (hard error).
            again = False
            if v.get("root") is not None:
                c = Ctx(pid)
                c.root = unjson(v["root"])
                try:
                    mod.explore(unjson(v["root"]), tier, c)
                except BaseException:
                    pass
                again = any(x["clause"] == v["clause"] and x["site"] == v["site"] for x in c.violations.values())
            v["replay_check"] = jsonable(repro)
            if again:
                v["needs_shard_history"] = True
                v["tier"] = tier
                print(f"NOTE property={pid} clause={v['clause']}: the recorded case passes on its own but fails again when its whole shard is re-run: "
                      f"the result depends on earlier calls in the same process (replay re-runs the shard)", file=sys.stderr)
            else:
                # not reproducible even with its shard: the outcome depended on what other shards ran earlier in that worker process
                # (library state leaking across calls) or on the harness. It is still reported as a violation (exit 1).
                v["not_reproduced"] = True
                print(f"NOTE property={pid} clause={v['clause']}: NOT REPRODUCED on replay (alone: {repro[0][0]}/{repro[1][0]}, with its shard: no) -- "
                      f"the outcome depends on process history", file=sys.stderr)
        path = write_replay(pid, v)
        replay_paths.append(path)
        print(f"VIOLATION property={pid} replay={path} clause={v['clause']} site={json.dumps(v['site'], sort_keys=True)} count={v['count']}")
        rc = max(rc, 1)

    write_evidence(mod, tier, seed, merged, wall, n_roots, len(unknown), known_hits)
    cl = {k: v for k, v in merged.clauses.items()}
    print(
        f"[{pid}] tier={tier} seed={seed} roots={n_roots} states={len(merged.states)} transitions={merged.transitions} "
        f"evaluations={merged.evaluations} nontrivial={len(merged.nontrivial)} outcomes={len(merged.outcomes)} "
        f"clauses={len(cl)} clause_evals={sum(v[0] for v in cl.values())} violations={len(unknown)} known={len(known_hits)} "
        f"caps={merged.caps} wall={wall:.1f}s"
    )
    return rc


def write_replay(pid: str, v: dict) -> str:
    d = os.path.join(OUT_DIR, "replays", pid)
    os.makedirs(d, exist_ok=True)
    sha = hashlib.sha1(json.dumps([v["clause"], v["site"], v["case"]], sort_keys=True).encode()).hexdigest()[:12]
    path = os.path.join(d, f"{v['clause']}-{sha}.json")
    with open(path, "w") as f:
        json.dump(v, f, indent=1, sort_keys=True)
    return path


def write_evidence(mod, tier, seed, merged: Merged, wall, n_roots, n_unknown, known_hits):
    import jsonschema

    pid = mod.ID
    cov = dict(
        states=len(merged.states),
        transitions=merged.transitions,
        traces_validated_against_impl=merged.transitions,
        evaluations=merged.evaluations,
        distinct_nontrivial=len(merged.nontrivial),
        rule=mod.RULE,
        samples=merged.samples[:MAX_SAMPLES] or ["<no sample recorded>"],
        exhaustive=not merged.caps and not merged.errors,
        caps_hit=merged.caps,
        roots=n_roots,
        max_depth=merged.max_depth,
        distinct_outcomes=len(merged.outcomes),
        bound=jsonable(dict(mod.bound(tier, seed), **({"size_family": mod.LARGE.get(tier) if isinstance(mod.LARGE, dict) and tier in mod.LARGE else mod.LARGE} if hasattr(mod, "LARGE") else {}))),
        clauses={k: dict(evaluated=v[0], violated=v[1]) for k, v in sorted(merged.clauses.items())},
        known_findings_reobserved=sorted(known_hits),
        counters=dict(merged.extra),
        explanation=(
            "Explicit-state / bounded exhaustive exploration executed directly on the implementation: every transition "
            "is a real library call, so traces_validated_against_impl equals transitions (there is no separate model "
            "whose traces need replaying)."
        ),
    )
    ev = dict(
        property_id=pid,
        tier=tier,
        seed=int(seed),
        level="model_checking",
        coverage=cov,
        assumptions=list(mod.ASSUMPTIONS),
        wall_s=round(wall, 3),
        violations=n_unknown,
    )
    with open(os.path.join(VERIF_DIR, "schemas", "EVIDENCE.schema.json")) as f:
        schema = json.load(f)
    jsonschema.validate(ev, schema)
    d = os.path.join(OUT_DIR, "evidence")
    os.makedirs(d, exist_ok=True)
    tmp = os.path.join(d, f".{pid}.json.tmp")
    with open(tmp, "w") as f:
        json.dump(ev, f, indent=1, sort_keys=True)
    os.replace(tmp, os.path.join(d, f"{pid}.json"))


def run_replay(mod, path: str) -> int:
    with open(path) as f:
        v = json.load(f)
    ctx = Ctx(mod.ID)
    if v.get("needs_shard_history") and v.get("root") is not None:
        print(f"[{mod.ID}] this case only fails after the cases explored before it: re-running its shard {json.dumps(v['root'])}")
        ctx.root = unjson(v["root"])
        mod.explore(unjson(v["root"]), v.get("tier", "quick"), ctx)
        ctx.violations = {k: x for k, x in ctx.violations.items() if x["clause"] == v["clause"] and x["site"] == v["site"]}
    else:
        mod.replay(unjson(v["case"]), ctx)
    known = load_known()
    rc = 0
    for x in ctx.violations.values():
        k = match_known(x, known)
        tag = f"KNOWN-FINDING({k['id']})" if k else "VIOLATION"
        print(f"{tag} property={mod.ID} clause={x['clause']} site={json.dumps(x['site'], sort_keys=True)}")
        print("  observed:", json.dumps(x["observed"])[:2000])
        print("  expected:", json.dumps(x["expected"])[:2000])
        if not k:
            rc = 1
    if not ctx.violations:
        print(f"[{mod.ID}] replay of {path}: no violation reproduced on this tree")
    return rc
