"""Canonical forms of library objects.

canon_*      : over-fine (class, columns in order, dtypes, row labels, exact cell values). Two objects with the same
               canonical form have the same futures because the library reads nothing else from a TimedList/Map
               (DESIGN.md §2.2). Used for state deduplication and for the C14 snapshot oracle.
value_rows   : coarse, by value (int 3 == float 3.0), labels/dtypes/column order ignored. Used by oracles that
               speak about content.
"""
from __future__ import annotations

import dataclasses
import math

import numpy as np
import pandas as pd

NAN = "<NaN>"


def cell(v):
    """Exact canonical form of one cell."""
    if v is None:
        return None
    if isinstance(v, (bool, np.bool_)):
        return bool(v)
    if isinstance(v, (int, np.integer)):
        return ("i", int(v))
    if isinstance(v, (float, np.floating)):
        f = float(v)
        if math.isnan(f):
            return NAN
        return ("f", f.hex())
    if isinstance(v, bytes):
        return ("b", v)
    if isinstance(v, str):
        return v
    if isinstance(v, (list, tuple, np.ndarray)):
        return ("l", tuple(cell(x) for x in v))
    if v is pd.NaT or (not isinstance(v, (list, dict)) and pd.isna(v) is True):
        return NAN
    if dataclasses.is_dataclass(v) and not isinstance(v, type):
        return (type(v).__qualname__, tuple((f.name, cell(getattr(v, f.name))) for f in dataclasses.fields(v)))
    if isinstance(v, dict):
        return ("d", tuple((str(k), cell(x)) for k, x in v.items()))
    return ("r", repr(v))


def val(v):
    """Canonical form by value: numbers compare by value, NaN is a value."""
    if v is None:
        return None
    if isinstance(v, (bool, np.bool_)):
        return bool(v)
    if isinstance(v, (int, np.integer)):
        return float(v) if abs(int(v)) < 2**53 else int(v)
    if isinstance(v, (float, np.floating)):
        f = float(v)
        return NAN if math.isnan(f) else f
    if isinstance(v, bytes):
        return v
    if isinstance(v, str):
        return v
    if isinstance(v, (list, tuple, np.ndarray)):
        return tuple(val(x) for x in v)
    try:
        if pd.isna(v) is True:
            return NAN
    except Exception:
        pass
    if dataclasses.is_dataclass(v) and not isinstance(v, type):
        return tuple((f.name, val(getattr(v, f.name))) for f in dataclasses.fields(v))
    return repr(v)


def canon_df(df: pd.DataFrame):
    cols = tuple(str(c) for c in df.columns)
    dts = tuple(str(t) for t in df.dtypes)
    labels = tuple(cell(i) for i in df.index.tolist())
    arr = [df[c].tolist() if not isinstance(df[c], pd.DataFrame) else df[c].values.tolist() for c in df.columns]
    rows = tuple(tuple(cell(arr[j][i]) for j in range(len(cols))) for i in range(len(df)))
    return (cols, dts, labels, rows)


def canon_list(tl):
    return (type(tl).__module__ + "." + type(tl).__qualname__, canon_df(tl.df))


def canon_meta(obj, skip=("objs", "maps")):
    out = []
    if dataclasses.is_dataclass(obj):
        for f in dataclasses.fields(obj):
            if f.name in skip:
                continue
            out.append((f.name, cell(getattr(obj, f.name, "<unset>"))))
    # attributes set outside dataclass fields (e.g. QuaMap.sv typo) are part of the state too
    for k, v in sorted(vars(obj).items()):
        if k in skip or any(k == n for n, _ in out):
            continue
        from reamber.base.lists.TimedList import TimedList

        out.append((k, canon_list(v) if isinstance(v, TimedList) else cell(v)))
    return tuple(out)


def canon_map(m):
    return (
        type(m).__qualname__,
        canon_meta(m),
        tuple((k, canon_list(v)) for k, v in m.objs.items()),
    )


def canon_mapset(ms):
    return (type(ms).__qualname__, canon_meta(ms), tuple(canon_map(m) for m in ms.maps))


def canon_any(x):
    from reamber.base.Map import Map
    from reamber.base.MapSet import MapSet
    from reamber.base.lists.TimedList import TimedList

    if isinstance(x, TimedList):
        return canon_list(x)
    if isinstance(x, Map):
        return canon_map(x)
    if isinstance(x, MapSet):
        return canon_mapset(x)
    if isinstance(x, pd.DataFrame):
        return canon_df(x)
    return cell(x)


def rows_by_value(tl, cols=None):
    """List of row dicts {col: value-canonical cell} in row order."""
    df = tl.df if hasattr(tl, "df") else tl
    cs = list(df.columns) if cols is None else [c for c in cols if c in df.columns]
    data = {c: df[c].tolist() for c in cs}
    return [{c: val(data[c][i]) for c in cs} for i in range(len(df))]


def row_multiset(tl, cols=None):
    return sorted((tuple(sorted(r.items(), key=lambda kv: kv[0])) for r in rows_by_value(tl, cols)), key=repr)
