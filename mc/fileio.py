"""Write a real chart with the library's writer and read the text back with the library's reader."""
from __future__ import annotations


def write_text(game, obj, **kw):
    """Returns the written file as the line list / text the game's reader takes."""
    if game == "osu":
        return list(obj.write())
    if game == "qua":
        return obj.write().split("\n")
    if game == "sm":
        return obj.write().split("\n")
    if game == "bms":
        return obj.write(**kw).decode("shift_jis").split("\r\n")
    raise KeyError(game)


def read_text(game, lines, **kw):
    if game == "osu":
        from reamber.osu import OsuMap

        return OsuMap.read(lines)
    if game == "qua":
        from reamber.quaver import QuaMap

        return QuaMap.read(lines)
    if game == "sm":
        from reamber.sm import SMMapSet

        return SMMapSet.read(lines)
    if game == "bms":
        from reamber.bms import BMSMap

        return BMSMap.read(lines, **kw)
    raise KeyError(game)


def write_read(game, obj):
    return read_text(game, write_text(game, obj))


# ---- the file entry points (read_file / write_file) ---------------------------------------------------------
ENC = dict(osu="utf8", qua="utf8", sm="utf8", bms="shift_jis")


def _cls(game):
    if game == "osu":
        from reamber.osu import OsuMap as C
    elif game == "qua":
        from reamber.quaver import QuaMap as C
    elif game == "sm":
        from reamber.sm import SMMapSet as C
    elif game == "bms":
        from reamber.bms import BMSMap as C
    else:
        from reamber.o2jam import O2JMapSet as C
    return C


def read_via_file(game, content, **kw):
    """Stores `content` (bytes, or str encoded the way the game's files are) in a scratch file and reads it with read_file."""
    import os
    import tempfile

    data = content if isinstance(content, bytes) else content.encode(ENC[game])
    with tempfile.TemporaryDirectory(prefix="verif-io-") as d:
        p = os.path.join(d, "chart." + dict(osu="osu", qua="qua", sm="sm", bms="bme", o2j="ojn")[game])
        with open(p, "wb") as f:
            f.write(data)
        return _cls(game).read_file(p, **kw)


def write_via_file(game, obj, **kw):
    """write_file into a scratch file; returns the bytes of the file."""
    import os
    import tempfile

    with tempfile.TemporaryDirectory(prefix="verif-io-") as d:
        p = os.path.join(d, "chart." + dict(osu="osu", qua="qua", sm="sm", bms="bme")[game])
        obj.write_file(p, **kw)
        with open(p, "rb") as f:
            return f.read()


def check_file_entry_points(ctx, game, content, obj, den_fn, site, case, written=None, read_kw=None, write_kw=None, check_write=True):
    """The file entry points agree with the in-memory ones: read_file(file holding `content`) denotes what read(content) gave
    (`obj`, compared through den_fn; skipped when content is None), and write_file leaves exactly the bytes of write()
    (`written`, computed if None; skipped when check_write is False)."""
    if content is not None:
        ctx.transition()
        try:
            viaf = read_via_file(game, content, **(read_kw or {}))
            a, b = den_fn(viaf), den_fn(obj)
            ctx.check("file.read_same", a == b, site=site, case=case, observed=str(a)[:400], expected=str(b)[:400])
        except Exception as e:
            ctx.check("file.read_same", False, site=dict(site, exc=type(e).__name__), case=case, observed=f"{type(e).__name__}: {e}"[:300], expected="the chart read(content) gives")
    if game == "o2j" or not check_write:
        return
    ctx.transition()
    try:
        if written is None:
            written = obj.write(**(write_kw or {}))
        if isinstance(written, list):
            written = "\n".join(written)
        exp = written if isinstance(written, bytes) else written.encode(ENC[game])
        got = write_via_file(game, obj, **(write_kw or {}))
        # text mode may translate the line separator of the platform; compare modulo that
        ctx.check("file.write_same", got.replace(b"\r\n", b"\n") == exp.replace(b"\r\n", b"\n"), site=site, case=case, observed=got[-300:].decode("latin1"), expected=exp[-300:].decode("latin1"))
    except Exception as e:
        ctx.check("file.write_same", False, site=dict(site, exc=type(e).__name__), case=case, observed=f"{type(e).__name__}: {e}"[:300], expected="the bytes of write()")
