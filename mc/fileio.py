"""Write a real chart with the library's writer and read the text back with the library's reader."""
from __future__ import annotations


def write_text(game, obj, **kw):
    """Returns the written file as the line list / text the game's reader takes."""
    if game == "osu":
        return list(obj.write())
    if game == "qua":
        return obj.write().split("\n")
    if game == "sm":
        return obj.write().split("\n")
    if game == "bms":
        return obj.write(**kw).decode("shift_jis").split("\r\n")
    raise KeyError(game)


def read_text(game, lines, **kw):
    if game == "osu":
        from reamber.osu import OsuMap

        return OsuMap.read(lines)
    if game == "qua":
        from reamber.quaver import QuaMap

        return QuaMap.read(lines)
    if game == "sm":
        from reamber.sm import SMMapSet

        return SMMapSet.read(lines)
    if game == "bms":
        from reamber.bms import BMSMap

        return BMSMap.read(lines, **kw)
    raise KeyError(game)


def write_read(game, obj):
    return read_text(game, write_text(game, obj))
