"""Start states shared by the history searches (C08, C12, C13, C14, C15): small real charts of the five games reached by
different constructions, so that row labels, dtypes and emptiness differ the way they do in real use.

variant      how the chart came to be
plain        built from items through the public constructors
empties      the same with empty hold and extra (SV/sample) lists
gaps         'plain' after a list filter (hits.after) -> row labels with gaps, a first row dropped
unsorted     'plain' with every list reversed by the library's own sorted(reverse=True)
read         parsed by the game's reader from a small generated file (osu, qua, sm, bms) -- integer dtypes, fresh labels
"""
from __future__ import annotations

from mc import charts

# 120 bpm: beat 500 ms, measure 2000 ms; the tempo change sits on a measure line; every time is on the 1/4-beat grid
NOTES = [(1000.0, 0, None), (500.0, 1, None), (3000.0, 2, None), (2000.0, 1, 1000.0), (4000.0, 3, 500.0)]
BPMS = [(0.0, 120.0), (2000.0, 60.0)]
SVS = [(100.0, 2.0), (2600.0, 0.5)]

OSU_TEXT = """osu file format v14

[General]
AudioFilename: a.mp3
Mode: 3

[Metadata]
Title:t
Artist:ar
Creator:cr
Version:ver

[Difficulty]
CircleSize:4

[Events]

[TimingPoints]
0,500,4,1,0,50,1,0
100,-50,4,1,0,50,0,0
2000,1000,4,1,0,50,1,0
2600,-200,4,1,0,50,0,0

[HitObjects]
192,192,500,1,0,0:0:0:0:
64,192,1000,1,0,0:0:0:0:
192,192,2000,128,0,3000:0:0:0:0:
320,192,3000,1,0,0:0:0:0:
448,192,4000,128,0,4500:0:0:0:0:
"""

QUA_TEXT = """AudioFile: a.mp3
Mode: Keys4
Title: t
Artist: ar
Creator: cr
DifficultyName: ver
TimingPoints:
- StartTime: 0
  Bpm: 120
- StartTime: 2000
  Bpm: 60
SliderVelocities:
- StartTime: 100
  Multiplier: 2
- StartTime: 2600
  Multiplier: 0.5
HitObjects:
- StartTime: 500
  Lane: 2
  KeySounds: []
- StartTime: 1000
  Lane: 1
  KeySounds: []
- StartTime: 2000
  Lane: 2
  EndTime: 3000
  KeySounds: []
- StartTime: 3000
  Lane: 3
  KeySounds: []
- StartTime: 4000
  Lane: 4
  EndTime: 4500
  KeySounds: []
"""

SM_TEXT = """#TITLE:t;
#ARTIST:ar;
#CREDIT:cr;
#OFFSET:0.000;
#BPMS:0.000=120.000,4.000=60.000;
#STOPS:;
#NOTES:
     dance-single:
     desc:
     Hard:
     7:
     0,0,0,0,0:
1000
0100
0020
0001
,
0030
0000
0000
0000
;
"""

BMS_TEXT = """#PLAYER 1
#TITLE t
#ARTIST ar
#BPM 120
#PLAYLEVEL 7
#LNOBJ ZZ
#WAV01 a.wav
#00111:01000000
#00112:00010000
#00113:00010000
#00211:00000001
#00212:0100ZZ00
"""


def game_extras(game, variant):
    meta = {}
    if game == "osu":
        meta = dict(title="t", artist="ar", creator="cr", version="ver", audio_file_name="a.mp3", preview_time=1000)
    elif game == "qua":
        meta = dict(title="t", artist="ar", creator="cr", difficulty_name="ver", audio_file="a.mp3")
    elif game == "bms":
        meta = dict(title=b"t", artist=b"ar", version=b"7")
    elif game == "sm":
        meta = dict(description="desc", difficulty="Hard", difficulty_val=7)
    return meta


def large_lists(n=300):
    """n notes on the quarter-beat grid of a 120 -> 60 -> 120 -> 240 bpm timeline (every 5th a hold of 250 ms), 6 SVs:
    beyond the small-array fast paths (16), the small-integer cache (256) and - with n >= 1100 - 1024-row chunks."""
    notes = []
    for i in range(n):
        t = 125.0 * i if i < 16 else 2000.0 + 250.0 * (i - 16)
        notes.append((t, i % 4, 250.0 if i % 5 == 2 else None))
    bpms = [(0.0, 120.0), (2000.0, 60.0), (22000.0, 120.0), (30000.0, 240.0)]
    svs = [(100.0, 2.0), (2600.0, 0.5), (9000.0, 1.5), (22000.0, 0.75), (40000.0, 1.25), (60000.0, 1.0)]
    return notes, bpms, svs


def make(game: str, variant: str):
    """Returns a fresh real chart (Map) of `game` in start state `variant`."""
    if variant == "read":
        return read(game)
    notes = NOTES
    svs = SVS
    bpms = BPMS
    if variant.startswith("large"):
        notes, bpms, svs = large_lists(int(variant[5:] or 300))
    if variant == "single":
        # one row per list: one-row buffers and frames behave differently from longer ones in several places
        notes = [(1000.0, 0, None), (2000.0, 1, 1000.0)]
        svs = SVS[:1]
        bpms = BPMS[:1]
    if variant == "empties":
        notes = [n for n in NOTES if n[2] is None]
        svs = []
    if game == "sm" and variant == "extras":
        variant_for_meta = "plain"
    m = charts.make_map(game, notes, bpms, svs if game in ("osu", "qua") else (), meta=game_extras(game, variant))
    if game == "qua" and variant in ("plain", "single", "gaps", "unsorted") and len(m.hits):
        # key sounds as a real .qua carries them: a list of {Sample, Volume} mappings (nested mutable state)
        m.hits.df.at[m.hits.df.index[0], "keysounds"] = [dict(Sample=1, Volume=80)]
        if len(m.holds):
            m.holds.df.at[m.holds.df.index[0], "keysounds"] = [dict(Sample=2, Volume=50), dict(Sample=3, Volume=100)]
    if game == "osu" and variant != "empties":
        from reamber.osu.OsuSample import OsuSample
        from reamber.osu.lists import OsuSampleList

        m.samples = OsuSampleList([OsuSample(offset=1200.0, sample_file="s.wav", volume=40)])
    if game == "sm" and variant == "extras":
        from reamber.sm import SMFake, SMKeySound, SMLift, SMMine, SMRoll, SMStop
        from reamber.sm.lists import SMStopList
        from reamber.sm.lists.notes import SMFakeList, SMKeySoundList, SMLiftList, SMMineList, SMRollList

        m.rolls = SMRollList([SMRoll(1500.0, 3, 250.0), SMRoll(5000.0, 0, 1000.0)])
        m.mines = SMMineList([SMMine(750.0, 2)])
        m.lifts = SMLiftList([SMLift(3500.0, 0)])
        m.fakes = SMFakeList([SMFake(250.0, 3)])
        m.keysounds = SMKeySoundList([SMKeySound(0.0, 0)])
        m.stops = SMStopList([SMStop(6000.0, 500.0)])
    if variant == "gaps":
        m.hits = m.hits.after(600.0)
        m.bpms = m.bpms  # unchanged: tempo lists are rarely filtered
    if variant == "unsorted":
        for k in list(m.objs):
            m.objs[k] = m.objs[k].sorted(reverse=True)
    return m


def read(game: str):
    if game == "osu":
        from reamber.osu import OsuMap

        return OsuMap.read(OSU_TEXT.split("\n"))
    if game == "qua":
        from reamber.quaver import QuaMap

        return QuaMap.read(QUA_TEXT.split("\n"))
    if game == "sm":
        from reamber.sm import SMMapSet

        return SMMapSet.read(SM_TEXT.split("\n")).maps[0]
    if game == "bms":
        from reamber.bms import BMSMap

        return BMSMap.read(BMS_TEXT.split("\n"))
    raise KeyError(game)


def variants(game: str):
    vs = ["plain", "empties", "gaps", "unsorted", "single"]
    if game in ("osu", "qua", "sm", "bms"):
        vs.append("read")
    if game == "sm":
        vs.append("extras")  # rolls, mines, lifts, fakes, keysounds and a stop
    return vs


def make_set(game: str, variant: str = "plain"):
    """A two-chart mapset (charts of different sizes) for the mapset games."""
    a = make(game, variant if variant != "read" else "plain")
    b = make(game, "empties")
    if game == "sm":
        b.difficulty = "Easy"
        b.difficulty_val = 2
        meta = dict(title="t", artist="ar", credit="cr", offset=0.0, music="a.mp3", sample_start=1000.0, sample_length=5000.0)
    else:
        meta = dict(title="t", artist="ar", creator="cr", level=[3, 5, 9], bpm=120.0)
    return charts.make_mapset(game, [a, b], meta)
