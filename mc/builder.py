"""Builder-graph enumeration of abstract documents: deviation-bounded and depth-bounded ('staircase' of bounds).

axes     : list of (axis name, [(label, mutate(doc)), ...])   one non-default value per axis at most
elements : list of (label, append(doc, slot))                  appended in sequence
stairs   : list of (max_deviations, max_depth)                 every (deviation set, element sequence) with
           |devs| <= max_deviations and len(seq) <= max_depth for at least one stair is enumerated exactly once.
The enumeration order is deterministic and simplest-first, so a shard is just an index range."""
from __future__ import annotations

import itertools


def dev_sets(axes, k):
    """All choices of <=k deviations on distinct axes, as tuples of (axis index, value index), simplest first."""
    for n in range(0, k + 1):
        for ax in itertools.combinations(range(len(axes)), n):
            for vals in itertools.product(*[range(len(axes[a][1])) for a in ax]):
                yield tuple(zip(ax, vals))


def elem_seqs(elements, depth):
    for n in range(0, depth + 1):
        for seq in itertools.product(range(len(elements)), repeat=n):
            yield seq


def staircase(axes, elements, stairs):
    seen = set()
    out = []
    for k, d in stairs:
        ds = list(dev_sets(axes, k))
        es = list(elem_seqs(elements, d))
        for dv in ds:
            for e in es:
                key = (dv, e)
                if key in seen:
                    continue
                seen.add(key)
                out.append(key)
    return out


def build(default_doc, axes, elements, devs, seq, finalize=None):
    doc = default_doc()
    for slot, e in enumerate(seq):
        elements[e][1](doc, slot + 1)
    for a, v in devs:
        axes[a][1][v][1](doc)
    if finalize:
        finalize(doc)
    return doc


def label(axes, elements, devs, seq):
    return dict(devs=[f"{axes[a][0]}={axes[a][1][v][0]}" for a, v in devs], elems=[elements[e][0] for e in seq])
