"""Small-chart factory shared by the property modules: builds real library charts of the five games from a plain
description, and extracts plain-Python twins (lists of row dicts) from real charts.

A chart description is a dict
    notes : [(time, column, length or None)]      length None = hit
    bpms  : [(time, bpm)] (+ optional metronome as third element)
    svs   : [(time, multiplier)]                   (osu, Quaver only)
    meta  : dict of metadata fields (game specific, passed to the constructor / set as attributes)
"""
from __future__ import annotations

GAMES = ("osu", "qua", "sm", "bms", "o2j")


def classes(game: str):
    """(Map class, item classes dict, list classes dict) for a game."""
    if game == "osu":
        from reamber.osu import OsuBpm, OsuHit, OsuHold, OsuMap, OsuSv
        from reamber.osu.lists import OsuBpmList, OsuSvList
        from reamber.osu.lists.notes import OsuHitList, OsuHoldList

        return OsuMap, dict(hit=OsuHit, hold=OsuHold, bpm=OsuBpm, sv=OsuSv), dict(hits=OsuHitList, holds=OsuHoldList, bpms=OsuBpmList, svs=OsuSvList)
    if game == "qua":
        from reamber.quaver import QuaBpm, QuaHit, QuaHold, QuaMap, QuaSv
        from reamber.quaver.lists import QuaBpmList, QuaSvList
        from reamber.quaver.lists.notes import QuaHitList, QuaHoldList

        return QuaMap, dict(hit=QuaHit, hold=QuaHold, bpm=QuaBpm, sv=QuaSv), dict(hits=QuaHitList, holds=QuaHoldList, bpms=QuaBpmList, svs=QuaSvList)
    if game == "sm":
        from reamber.sm import SMBpm, SMHit, SMHold, SMMap
        from reamber.sm.lists import SMBpmList
        from reamber.sm.lists.notes import SMHitList, SMHoldList

        return SMMap, dict(hit=SMHit, hold=SMHold, bpm=SMBpm), dict(hits=SMHitList, holds=SMHoldList, bpms=SMBpmList)
    if game == "bms":
        from reamber.bms import BMSBpm, BMSHit, BMSHold, BMSMap
        from reamber.bms.lists import BMSBpmList
        from reamber.bms.lists.notes import BMSHitList, BMSHoldList

        return BMSMap, dict(hit=BMSHit, hold=BMSHold, bpm=BMSBpm), dict(hits=BMSHitList, holds=BMSHoldList, bpms=BMSBpmList)
    if game == "o2j":
        from reamber.o2jam import O2JBpm, O2JHit, O2JHold, O2JMap
        from reamber.o2jam.lists import O2JBpmList
        from reamber.o2jam.lists.notes import O2JHitList, O2JHoldList

        return O2JMap, dict(hit=O2JHit, hold=O2JHold, bpm=O2JBpm), dict(hits=O2JHitList, holds=O2JHoldList, bpms=O2JBpmList)
    raise KeyError(game)


def make_map(game: str, notes, bpms, svs=(), meta=None, hit_kw=None, hold_kw=None):
    """Builds a chart from items through the public constructors."""
    M, I, L = classes(game)
    m = M()
    hkw = dict(hit_kw or {})
    okw = dict(hold_kw or {})
    if game == "qua":
        hkw.setdefault("keysounds", [])
        okw.setdefault("keysounds", [])
    m.hits = L["hits"]([I["hit"](offset=t, column=c, **hkw) for t, c, l in notes if l is None])
    m.holds = L["holds"]([I["hold"](offset=t, column=c, length=l, **okw) for t, c, l in notes if l is not None])
    m.bpms = L["bpms"]([I["bpm"](offset=b[0], bpm=b[1], **(dict(metronome=b[2]) if len(b) > 2 else {})) for b in bpms])
    if "svs" in L:
        m.svs = L["svs"]([I["sv"](offset=t, multiplier=x) for t, x in svs])
    for k, v in (meta or {}).items():
        setattr(m, k, v)
    return m


def make_mapset(game: str, maps, meta=None):
    if game == "sm":
        from reamber.sm import SMMapSet as S
    elif game == "o2j":
        from reamber.o2jam import O2JMapSet as S
    else:
        raise KeyError(game)
    ms = S()
    ms.maps = list(maps)
    for k, v in (meta or {}).items():
        setattr(ms, k, v)
    return ms


def notes_of(m):
    """Multiset (sorted list) of (offset, column, length or None) of a real chart, by value."""
    out = []
    for t, c in zip(m.hits.offset.tolist(), m.hits.column.tolist()):
        out.append((float(t), float(c), None))
    for t, c, l in zip(m.holds.offset.tolist(), m.holds.column.tolist(), m.holds.length.tolist()):
        out.append((float(t), float(c), float(l)))
    return sorted(out, key=lambda x: (x[0], x[1], x[2] is not None, x[2] or 0.0))


def bpms_of(m):
    return sorted((float(t), float(b)) for t, b in zip(m.bpms.offset.tolist(), m.bpms.bpm.tolist()))
