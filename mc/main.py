"""Entry point: ./check <ID> [--tier quick|thorough] [--replay FILE] [--list]"""
import argparse
import importlib
import os
import sys

sys.path.insert(0, os.path.dirname(os.path.dirname(os.path.abspath(__file__))))
from mc import core  # noqa: E402  (pins the environment)


def main() -> int:
    ap = argparse.ArgumentParser()
    ap.add_argument("id", nargs="?")
    ap.add_argument("--tier", default=os.environ.get("VERIF_TIER", "quick"), choices=["quick", "thorough"])
    ap.add_argument("--replay")
    ap.add_argument("--list", action="store_true")
    ap.add_argument("--workers", type=int, default=None)
    a = ap.parse_args()
    props_dir = os.path.join(core.VERIF_DIR, "props")
    ids = sorted(f[:-3].upper() for f in os.listdir(props_dir) if f.startswith("c") and f.endswith(".py"))
    if a.list or not a.id:
        print("\n".join(ids))
        return 0
    pid = a.id.upper()
    if pid not in ids:
        print(f"unknown property {pid}", file=sys.stderr)
        return 2
    mod = importlib.import_module(f"props.{pid.lower()}")
    if a.replay:
        return core.run_replay(mod, a.replay)
    try:
        seed = int(os.environ.get("VERIF_SEED", "0"))
    except ValueError:
        seed = 0
    return core.run_check(mod, a.tier, seed, a.workers)


if __name__ == "__main__":
    sys.exit(main())
