#!/bin/bash
# Runs the pinned test suite of a repo checkout (default /repo) in parallel and compares with BASELINE.stable_pass.
# Tests that do not pass in the parallel run are re-run serially (two tests of the suite share a scratch file and
# can collide under xdist); only a test that also fails serially counts.
# usage: tools/suite.sh [repo_dir]
R="${1:-/repo}"
OUT=$(mktemp /tmp/suite.XXXXXX.xml)
(cd "$R" && REAMBERPY_VERIF= /venv/bin/python -m pytest -q -p no:cacheprovider --timeout=900 --continue-on-collection-errors -n 12 --junitxml="$OUT" >/dev/null 2>&1)
/venv/bin/python - "$OUT" "$R" <<'PY'
import json,sys,subprocess,xml.etree.ElementTree as ET
b=json.load(open('/root/.vp/BASELINE.json'))
want=set(b['stable_pass'])
got=set()
for tc in ET.parse(sys.argv[1]).getroot().iter('testcase'):
    ok=not any(c.tag in('failure','error','skipped') for c in tc)
    if ok: got.add(f"{tc.get('classname')}::{tc.get('name')}")
missing=sorted(want-got)
still=[]
for m in missing:
    cls,name=m.split("::",1)
    node=cls.replace(".","/")+".py::"+name
    r=subprocess.run(["/venv/bin/python","-m","pytest","-q","-p","no:cacheprovider",node],cwd=sys.argv[2],capture_output=True,text=True)
    if r.returncode!=0: still.append(m)
    else: print("  (passed serially, collided in the parallel run):",m)
print(f"suite: {len(got)+len(missing)-len(still)} passed; baseline stable_pass={len(want)}; missing_from_pass={len(still)}")
for m in still[:20]: print("  NOT PASSING:",m)
sys.exit(1 if still else 0)
PY
rc=$?
rm -f "$OUT"
exit $rc
