#!/bin/bash
# Runs the pinned test suite of a repo checkout (default /repo) in parallel and compares with BASELINE.stable_pass.
# usage: tools/suite.sh [repo_dir]
R="${1:-/repo}"
OUT=$(mktemp /tmp/suite.XXXXXX.xml)
(cd "$R" && REAMBERPY_VERIF= /venv/bin/python -m pytest -q -p no:cacheprovider --timeout=900 --continue-on-collection-errors -n 12 --junitxml="$OUT" >/dev/null 2>&1)
/venv/bin/python - "$OUT" <<'PY'
import json,sys,xml.etree.ElementTree as ET
b=json.load(open('/root/.vp/BASELINE.json'))
want=set(b['stable_pass'])
got=set()
for tc in ET.parse(sys.argv[1]).getroot().iter('testcase'):
    ok=not any(c.tag in('failure','error','skipped') for c in tc)
    if ok: got.add(f"{tc.get('classname')}::{tc.get('name')}")
missing=sorted(want-got)
print(f"suite: {len(got)} passed; baseline stable_pass={len(want)}; missing_from_pass={len(missing)}")
for m in missing[:20]: print("  NOT PASSING:",m)
sys.exit(1 if missing else 0)
PY
rc=$?
rm -f "$OUT"
exit $rc
