#!/bin/bash
# usage: tools/mut.sh <ID> <file-relative-to-repo> <python-regex-old> <new>  -- quick mutant probe on a scratch copy (not /repo)
ID=$1; FILE=$2; OLD=$3; NEW=$4
D=$(mktemp -d /tmp/mut.XXXXXX)
cp -r /repo/reamber $D/
/venv/bin/python - "$D/$FILE" "$OLD" "$NEW" <<'PY'
import sys,re
p,old,new=sys.argv[1:4]
s=open(p).read()
assert old in s, "pattern not found"
s=s.replace(old,new,1)
open(p,'w').write(s)
PY
[ $? -eq 0 ] || { rm -rf $D; exit 3; }
shift 4
VERIF_REPO=$D VERIF_OUT=$D/out /verif/check $ID "$@" 2>&1 | sed 's/replay=[^ ]*//' | cut -c1-220 | tail -${TAILN:-6}
rm -rf $D
