#!/venv/bin/python
"""Validates a seeded property-breaking change and files it under /verif/seeded/<name>/.

usage: tools/seed.py <property id> <dir with patch.diff, demo.py, notes.md> [--name NAME] [--checks C01,C09] [--tier quick]

Steps (all in a scratch worktree of /repo outside /repo and /verif, removed afterwards):
  1. git apply patch.diff                      -> must apply
  2. pinned suite on the patched tree          -> must still pass (tools/suite.sh)
  3. demo.py on the patched tree               -> must fail (exit != 0); on /repo itself -> must pass (exit 0)
  4. ./check <ID> --tier <tier> with VERIF_REPO=<patched tree> for the property's own check (and any extra --checks)
Writes seeded/<name>/{patch.diff, demo.py, notes.md, meta.json}; meta.json records what was run and what each check reported."""
import argparse
import json
import os
import re
import shutil
import subprocess
import sys
import tempfile
import time

V = os.path.dirname(os.path.dirname(os.path.abspath(__file__)))


def run(cmd, **kw):
    return subprocess.run(cmd, capture_output=True, text=True, **kw)


def main():
    ap = argparse.ArgumentParser()
    ap.add_argument("pid")
    ap.add_argument("src")
    ap.add_argument("--name")
    ap.add_argument("--checks", default="")
    ap.add_argument("--tier", default="quick")
    ap.add_argument("--skip-suite", action="store_true")
    a = ap.parse_args()
    pid = a.pid.upper()
    name = a.name or f"{pid}-{os.path.basename(os.path.normpath(a.src))}"
    patch = os.path.join(a.src, "patch.diff")
    demo = os.path.join(a.src, "demo.py")
    wt = tempfile.mkdtemp(prefix="seedwt-", dir="/tmp")
    os.rmdir(wt)
    meta = dict(name=name, property=pid, validated_at=time.strftime("%Y-%m-%d %H:%M:%S"), steps=[])
    try:
        r = run(["git", "-C", "/repo", "worktree", "add", "-q", "--detach", wt, "HEAD"])
        assert r.returncode == 0, r.stderr
        meta["base_commit"] = run(["git", "-C", "/repo", "rev-parse", "--short", "HEAD"]).stdout.strip()
        r = run(["git", "-C", wt, "apply", os.path.abspath(patch)])
        meta["steps"].append(dict(step="git apply", ok=r.returncode == 0, err=r.stderr[-300:]))
        if r.returncode != 0:
            print("PATCH DOES NOT APPLY", r.stderr)
            return 2
        meta["files_changed"] = run(["git", "-C", wt, "diff", "--stat"]).stdout.strip().split("\n")
        if not a.skip_suite:
            r = run([os.path.join(V, "tools", "suite.sh"), wt])
            line = [l for l in r.stdout.split("\n") if l.startswith("suite:")]
            meta["suite_with_change"] = (line or ["?"])[0] + "".join("; " + l.strip() for l in r.stdout.split("\n") if "NOT PASSING" in l)
            meta["suite_passes"] = r.returncode == 0
            print(meta["suite_with_change"])
        env = dict(os.environ, PYTHONPATH=wt)
        r1 = run(["/venv/bin/python", "-W", "ignore", os.path.abspath(demo)], cwd=wt, env=env)
        env0 = dict(os.environ, PYTHONPATH="/repo")
        r0 = run(["/venv/bin/python", "-W", "ignore", os.path.abspath(demo)], cwd="/repo", env=env0)
        meta["demo_with_change"] = dict(exit=r1.returncode, tail=(r1.stdout + r1.stderr)[-400:])
        meta["demo_without_change"] = dict(exit=r0.returncode, tail=(r0.stdout + r0.stderr)[-200:])
        print("demo with change: exit", r1.returncode, "| without:", r0.returncode)
        checks = [pid] + [c for c in a.checks.upper().split(",") if c and c != pid]
        meta["checks"] = {}
        out_dir = tempfile.mkdtemp(prefix="seedout-", dir="/tmp")
        for c in checks:
            t0 = time.time()
            env2 = dict(os.environ, VERIF_REPO=wt, VERIF_OUT=out_dir)
            r = run([os.path.join(V, "check"), c, "--tier", a.tier], env=env2)
            lines = [re.sub(r"replay=\S+ ", "", l)[:260] for l in r.stdout.split("\n") if l.startswith("VIOLATION")]
            meta["checks"][c] = dict(tier=a.tier, exit=r.returncode, violations=len(lines), first=lines[:4], wall_s=round(time.time() - t0, 1), harness_error=("HARNESS-ERROR" in r.stderr))
            print(f"check {c} [{a.tier}]: exit={r.returncode} violations={len(lines)}" + (" HARNESS-ERROR" if "HARNESS-ERROR" in r.stderr else ""))
            for l in lines[:3]:
                print("   ", l)
        shutil.rmtree(out_dir, ignore_errors=True)
        meta["detected_by"] = [c for c, v in meta["checks"].items() if v["exit"] != 0 and v["violations"] > 0 and not v["harness_error"]]
        notes = os.path.join(a.src, "notes.md")
        if os.path.exists(notes):
            meta["needs_to_manifest"] = open(notes).read()[:1500]
        dst = os.path.join(V, "seeded", name)
        os.makedirs(dst, exist_ok=True)
        old = os.path.join(dst, "meta.json")
        if a.skip_suite and os.path.exists(old):
            # a re-validation after strengthening a check keeps the suite result and the history of the first run
            prev = json.load(open(old))
            for k in ("suite_passes", "suite_with_change", "first_run_missed", "strengthening"):
                if k in prev:
                    meta[k] = prev[k]
            if not prev.get("detected_by") and meta["detected_by"]:
                meta["first_run_missed"] = True
        for f in ("patch.diff", "demo.py", "notes.md"):
            if os.path.exists(os.path.join(a.src, f)):
                shutil.copy(os.path.join(a.src, f), os.path.join(dst, f))
        meta["what_was_run"] = [
            f"git worktree add <scratch> HEAD ({meta['base_commit']}); git apply patch.diff",
            "tools/suite.sh <scratch>  (pinned suite, -n 12, compared with BASELINE.stable_pass)",
            "PYTHONPATH=<scratch> python demo.py (must fail) ; PYTHONPATH=/repo python demo.py (must pass)",
        ] + [f"VERIF_REPO=<scratch> ./check {c} --tier {a.tier}" for c in checks]
        with open(os.path.join(dst, "meta.json"), "w") as f:
            json.dump(meta, f, indent=1)
        ok = meta.get("suite_passes", True) and r1.returncode != 0 and r0.returncode == 0
        print("VALID MUTANT" if ok else "NOT A VALID MUTANT", "| detected by:", meta["detected_by"] or "NONE")
        return 0
    finally:
        run(["git", "-C", "/repo", "worktree", "remove", "--force", wt])
        shutil.rmtree(wt, ignore_errors=True)


if __name__ == "__main__":
    sys.exit(main())
