#!/venv/bin/python
"""Every repaired defect must be re-detected when its repair is undone.

For each entry of known_findings.json with status 'fixed': a scratch worktree of /repo at HEAD, `git revert -n <commit>` (entries
whose revert conflicts with later commits are reported as such), then the property's quick check with VERIF_REPO=<worktree>.
Expected: exit 1 with a VIOLATION line (ideally of the recorded clause). Writes seeded/reverts.json."""
import json
import os
import re
import shutil
import subprocess
import sys
import tempfile

V = os.path.dirname(os.path.dirname(os.path.abspath(__file__)))


def run(cmd, **kw):
    return subprocess.run(cmd, capture_output=True, text=True, **kw)


def main():
    kf = json.load(open(os.path.join(V, "known_findings.json")))["findings"]
    fixed = [f for f in kf if f.get("status") == "fixed" and f.get("commit")]
    only = set(sys.argv[1:])
    by_commit = {}
    for f in fixed:
        by_commit.setdefault(f["commit"], []).append(f)
    out = []
    for commit, fs in by_commit.items():
        if only and commit not in only:
            continue
        wt = tempfile.mkdtemp(prefix="revwt-", dir="/tmp")
        os.rmdir(wt)
        try:
            r = run(["git", "-C", "/repo", "worktree", "add", "-q", "--detach", wt, "HEAD"])
            assert r.returncode == 0, r.stderr
            r = run(["git", "-C", wt, "revert", "-n", "--no-edit", commit])
            rec = dict(commit=commit, findings=[f["id"] for f in fs], properties=sorted({f["property"] for f in fs}))
            if r.returncode != 0:
                rec["revert"] = "conflicts with later commits"
                out.append(rec)
                print(commit, "revert conflicts")
                continue
            rec["revert"] = "clean"
            rec["checks"] = {}
            outdir = tempfile.mkdtemp(prefix="revout-", dir="/tmp")
            for prop in rec["properties"]:
                env = dict(os.environ, VERIF_REPO=wt, VERIF_OUT=outdir)
                c = run([os.path.join(V, "check"), prop, "--tier", "quick"], env=env)
                lines = [l for l in c.stdout.split("\n") if l.startswith("VIOLATION")]
                clauses = sorted({re.search(r"clause=(\S+)", l).group(1) for l in lines if "clause=" in l})
                want = sorted({f["clause"] for f in fs if f["property"] == prop})
                rec["checks"][prop] = dict(exit=c.returncode, violation_sites=len(lines), clauses=clauses[:8], recorded_clauses=want, recorded_clause_seen=any(w in clauses for w in want))
                print(commit, prop, "exit", c.returncode, "sites", len(lines), "recorded clause seen:", rec["checks"][prop]["recorded_clause_seen"])
            shutil.rmtree(outdir, ignore_errors=True)
            rec["detected"] = all(v["exit"] == 1 and v["violation_sites"] > 0 for v in rec["checks"].values())
            out.append(rec)
        finally:
            run(["git", "-C", "/repo", "worktree", "remove", "--force", wt])
            shutil.rmtree(wt, ignore_errors=True)
    if not only:
        with open(os.path.join(V, "seeded", "reverts.json"), "w") as f:
            json.dump(out, f, indent=1)
    n = [r for r in out if r["revert"] == "clean"]
    print(f"reverted cleanly: {len(n)}; re-detected: {sum(1 for r in n if r['detected'])}; conflicts: {len(out) - len(n)}")


if __name__ == "__main__":
    main()
