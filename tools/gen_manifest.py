#!/venv/bin/python
"""Generates /verif/MANIFEST.json from the per-property table below and the property modules present in props/.
A property whose module does not exist (or that is listed in NOT_CLAIMED) goes under not_applicable with a reason."""
import json
import os
import sys

V = os.path.dirname(os.path.dirname(os.path.abspath(__file__)))

# id -> (technique, level text, level note, design ref)
CHECKS = {
    "C16": (
        "explicit-state BFS over list-operation histories on the real TimedList classes, step-compared with a plain-Python twin",
        "Every concrete TimedList subclass (found by walking the package) x 12 constructors x every sequence of <=2 (quick) / <=3 "
        "(thorough) operations from a ~60-110 operation alphabet (sort, append, after/before/between with all flag combinations, "
        "slices, masks), deduplicated by canonical DataFrame state; in every reached state all observers (len, every positive and "
        "negative index, iteration, first/last offset, column getters, declared fields) are compared with a plain list of row dicts.",
        "Bounded: 4-row contents palette with negative/fractional/duplicate offsets, history depth <=2/3. Trusted: pandas/numpy as "
        "installed, the twin model in props/c16.py. Sort ties are order-free (DESIGN 7.14).",
        "DESIGN.md §4 C16",
    ),
}

CHECKS["C10"] = (
    "exhaustive finite-domain enumeration of TimingMap/Snapper/Snap on the real code against exact Fraction integration",
    "Every tempo list of the bounded families (1..3/4 changes; metronomes 1..8 with changes on measure lines; constant metronome with "
    "changes anywhere on a quarter-beat grid; 3 initial offsets incl. negative) x every query tuple of length <=3/4 over positions "
    "straddling every change (all multisets in all orders, duplicates) through offsets/snaps/beats; all 2807 Snapper fixpoints, a "
    "20001-point nearest/idempotence sweep, Snap carry/add/sub/order on all position pairs for metronomes 1..8; BpmList.to_timing_map "
    "under all row permutations.",
    "Bounded value palettes (bpm, positions); 1e-6 ms tolerance against exact rational integration. Trusted: refs/timing.py.",
    "DESIGN.md §4 C10",
)
CHECKS["C11"] = (
    "exhaustive finite-domain enumeration of reseat (3 entry points) on the real code; clause oracle in exact Fractions",
    "All tempo lists with 2..3/4 changes on a half/quarter-beat grid within 16 beats (metronomes 4 and 3, bpm palette) plus an "
    "epsilon alphabet just after measure/beat lines, through reseat_bpm_changes_snap, from_bpm_changes_snap(reseat=True) and "
    "TimingMap.reseat(); clauses: on a measure line, original change times kept (and the caller's own list still denoting them after the call), bpm kept where whole measures follow, at most one "
    "insert per interval, re-reseat leaves bpm(t) unchanged.",
    "'Randomly on finer grids' replaced by exhaustive grids + epsilon alphabet. Known open findings: the two 'extend' branches.",
    "DESIGN.md §4 C11",
)

CHECKS["C01"] = (
    "builder-graph search over abstract .osu documents (deviation- and depth-bounded) driven through the real reader/writer, plus complete (keys,x) table",
    "Complete table of (keys 1..18, x -2..514) through the hit/hold item readers and writers; every .osu document with <=2/3 deviations "
    "from a default chart over 13 feature axes (key count, x placement, times, beat lengths, meters, hitsound fields and files, metadata "
    "text with ':'/non-ASCII/leading blanks/empty, numeric metadata, sample events, file structure) combined with element sequences "
    "(hit, holds, tempo point, SVs, sample) up to depth 3/4 in a staircase of bounds; each document: read vs denotation known by "
    "construction, write vs an independent .osu parser (<1 ms), read(write) and four generations without drift; constructor-built "
    "charts with fractional/negative/huge times through the same cycle.",
    "Bounded palettes; independent reference parser refs/osu.py encodes my reading of the v14 mania format (effects in {0,1}, types 1/128).",
    "DESIGN.md §4 C01",
)

NOT_CLAIMED = {}


def module_entry(pid):
    """Property modules may carry their own manifest texts (TECHNIQUE, LEVEL_TEXT, LEVEL_NOTE)."""
    import ast

    path = os.path.join(V, "props", pid.lower() + ".py")
    if not os.path.exists(path):
        return None
    vals = {}
    for node in ast.parse(open(path).read()).body:
        if isinstance(node, ast.Assign) and len(node.targets) == 1 and isinstance(node.targets[0], ast.Name):
            if node.targets[0].id in ("TECHNIQUE", "LEVEL_TEXT", "LEVEL_NOTE"):
                vals[node.targets[0].id] = ast.literal_eval(node.value)
    if len(vals) == 3:
        return (vals["TECHNIQUE"], vals["LEVEL_TEXT"], vals["LEVEL_NOTE"], f"DESIGN.md §4 {pid}")
    return None


def main():
    props = [json.loads(l) for l in open(os.path.join(V, "properties.jsonl"))]
    checks, na = [], []
    for p in props:
        pid = p["id"]
        have = os.path.exists(os.path.join(V, "props", pid.lower() + ".py"))
        if pid not in CHECKS and have and module_entry(pid):
            CHECKS[pid] = module_entry(pid)
        if pid in NOT_CLAIMED or not have or pid not in CHECKS:
            na.append(dict(property_id=pid, reason=NOT_CLAIMED.get(pid, "check not built yet (work in progress; planned in DESIGN.md §4)")))
            continue
        tech, text, note, ref = CHECKS[pid]
        # what every check gained while it was built (DESIGN.md 9.5 / 9.6), judged by the same oracle as the small-scope search
        text = text.rstrip() + (" Added while building (DESIGN.md 9.5): second-use probes (the same object or process used again with other content), "
                                "row order and row labels as an axis of every list read, a size family of deterministic large instances crossing 16/256/1024 rows "
                                "(evidence: coverage.bound.size_family)" + (", and the file entry points differential (read_file/write_file vs read/write)." if pid in ("C01", "C02", "C03", "C04", "C05", "C06", "C07") else "."))
        ref = ref + "; DESIGN.md §9.4-9.6"
        checks.append(
            dict(
                property_id=pid,
                quick_cmd=f"./check {pid} --tier quick",
                thorough_cmd=f"./check {pid} --tier thorough",
                evidence_file=f"/verif/evidence/{pid}.json",
                replay_cmd_template=f"./check {pid} --replay {{path}}",
                engine="mc-explorer",
                level_claimed=dict(category="model_checking", text=text, design_ref=ref),
                level_note=note,
                technique=tech,
            )
        )
    man = dict(
        version=1,
        setup_cmd="cd /verif && /venv/bin/python -m compileall -q mc props refs tools >/dev/null && ./check --list >/dev/null",
        hooks=dict(
            guard="REAMBERPY_VERIF",
            enable="no instrumentation exists in /repo: the checks drive public functions of the working tree directly (editable install); "
            "REAMBERPY_VERIF=1 is exported by ./check for completeness",
            baseline_off_cmd="cd /repo && /venv/bin/python -m pytest -ra -q -p no:cacheprovider --timeout=900 --continue-on-collection-errors",
            source_commits=[],
            add_only=True,
        ),
        engines=[
            dict(
                name="mc-explorer",
                path="/verif/mc",
                serves_properties=[c["property_id"] for c in checks],
                kind_free_text="hand-written explicit-state / bounded exhaustive explorer in Python that executes the real library on every "
                "transition (history BFS, builder-graph search over documents, finite-domain function enumeration) and compares with "
                "plain-Python / Fraction reference models; deterministic sharding over 16 processes",
            )
        ],
        checks=checks,
        notes="Known defects of the pinned tree are in /verif/known_findings.json (open = reported as KNOWN-FINDING, fixed = repaired by a "
        "'fix:' commit in /repo and suppressing nothing). Seeded property-breaking changes and which checks catch them: /verif/seeded/ "
        "and DESIGN.md §9.",
        not_applicable=na,
    )
    import jsonschema

    jsonschema.validate(man, json.load(open(os.path.join(V, "schemas", "MANIFEST.schema.json"))))
    with open(os.path.join(V, "MANIFEST.json"), "w") as f:
        json.dump(man, f, indent=1)
    print(f"MANIFEST.json: {len(checks)} checks, {len(na)} not_applicable")


if __name__ == "__main__":
    sys.exit(main())
