#!/venv/bin/python
"""Generates /verif/MANIFEST.json from the per-property table below and the property modules present in props/.
A property whose module does not exist (or that is listed in NOT_CLAIMED) goes under not_applicable with a reason."""
import json
import os
import sys

V = os.path.dirname(os.path.dirname(os.path.abspath(__file__)))

# id -> (technique, level text, level note, design ref)
CHECKS = {
    "C16": (
        "explicit-state BFS over list-operation histories on the real TimedList classes, step-compared with a plain-Python twin",
        "Every concrete TimedList subclass (found by walking the package) x 12 constructors x every sequence of <=2 (quick) / <=3 "
        "(thorough) operations from a ~60-110 operation alphabet (sort, append, after/before/between with all flag combinations, "
        "slices, masks), deduplicated by canonical DataFrame state; in every reached state all observers (len, every positive and "
        "negative index, iteration, first/last offset, column getters, declared fields) are compared with a plain list of row dicts.",
        "Bounded: 4-row contents palette with negative/fractional/duplicate offsets, history depth <=2/3. Trusted: pandas/numpy as "
        "installed, the twin model in props/c16.py. Sort ties are order-free (DESIGN 7.14).",
        "DESIGN.md §4 C16",
    ),
}

NOT_CLAIMED = {}


def main():
    props = [json.loads(l) for l in open(os.path.join(V, "properties.jsonl"))]
    checks, na = [], []
    for p in props:
        pid = p["id"]
        have = os.path.exists(os.path.join(V, "props", pid.lower() + ".py"))
        if pid in NOT_CLAIMED or not have or pid not in CHECKS:
            na.append(dict(property_id=pid, reason=NOT_CLAIMED.get(pid, "check not built yet (work in progress; planned in DESIGN.md §4)")))
            continue
        tech, text, note, ref = CHECKS[pid]
        checks.append(
            dict(
                property_id=pid,
                quick_cmd=f"./check {pid} --tier quick",
                thorough_cmd=f"./check {pid} --tier thorough",
                evidence_file=f"/verif/evidence/{pid}.json",
                replay_cmd_template=f"./check {pid} --replay {{path}}",
                engine="mc-explorer",
                level_claimed=dict(category="model_checking", text=text, design_ref=ref),
                level_note=note,
                technique=tech,
            )
        )
    man = dict(
        version=1,
        setup_cmd="cd /verif && /venv/bin/python -m compileall -q mc props refs tools >/dev/null && ./check --list >/dev/null",
        hooks=dict(
            guard="REAMBERPY_VERIF",
            enable="no instrumentation exists in /repo: the checks drive public functions of the working tree directly (editable install); "
            "REAMBERPY_VERIF=1 is exported by ./check for completeness",
            baseline_off_cmd="cd /repo && /venv/bin/python -m pytest -ra -q -p no:cacheprovider --timeout=900 --continue-on-collection-errors",
            source_commits=[],
            add_only=True,
        ),
        engines=[
            dict(
                name="mc-explorer",
                path="/verif/mc",
                serves_properties=[c["property_id"] for c in checks],
                kind_free_text="hand-written explicit-state / bounded exhaustive explorer in Python that executes the real library on every "
                "transition (history BFS, builder-graph search over documents, finite-domain function enumeration) and compares with "
                "plain-Python / Fraction reference models; deterministic sharding over 16 processes",
            )
        ],
        checks=checks,
        notes="Known defects of the pinned tree are in /verif/known_findings.json (open = reported as KNOWN-FINDING, fixed = repaired by a "
        "'fix:' commit in /repo and suppressing nothing). Seeded property-breaking changes and which checks catch them: /verif/seeded/ "
        "and DESIGN.md §9.",
        not_applicable=na,
    )
    import jsonschema

    jsonschema.validate(man, json.load(open(os.path.join(V, "schemas", "MANIFEST.schema.json"))))
    with open(os.path.join(V, "MANIFEST.json"), "w") as f:
        json.dump(man, f, indent=1)
    print(f"MANIFEST.json: {len(checks)} checks, {len(na)} not_applicable")


if __name__ == "__main__":
    sys.exit(main())
