"""Reference model of the osu!mania v14 text format: renderer of abstract documents (with the denotation known by
construction), an independent parser for written text, and a well-formedness check. No code is shared with reamber."""
from __future__ import annotations

import copy
import math
import re
from fractions import Fraction as F

META_KEYS = [  # (file key, attribute, section, kind)
    ("AudioFilename", "audio_file_name", "General", "str"),
    ("AudioLeadIn", "audio_lead_in", "General", "int"),
    ("PreviewTime", "preview_time", "General", "int"),
    ("Countdown", "countdown", "General", "bool"),
    ("SampleSet", "sample_set", "General", "sampleset"),
    ("StackLeniency", "stack_leniency", "General", "float"),
    ("Mode", "mode", "General", "int"),
    ("LetterboxInBreaks", "letterbox_in_breaks", "General", "bool"),
    ("SpecialStyle", "special_style", "General", "bool"),
    ("WidescreenStoryboard", "widescreen_storyboard", "General", "bool"),
    ("DistanceSpacing", "distance_spacing", "Editor", "float"),
    ("BeatDivisor", "beat_divisor", "Editor", "int"),
    ("GridSize", "grid_size", "Editor", "int"),
    ("TimelineZoom", "timeline_zoom", "Editor", "float"),
    ("Title", "title", "Metadata", "str"),
    ("TitleUnicode", "title_unicode", "Metadata", "str"),
    ("Artist", "artist", "Metadata", "str"),
    ("ArtistUnicode", "artist_unicode", "Metadata", "str"),
    ("Creator", "creator", "Metadata", "str"),
    ("Version", "version", "Metadata", "str"),
    ("Source", "source", "Metadata", "str"),
    ("Tags", "tags", "Metadata", "tags"),
    ("BeatmapID", "beatmap_id", "Metadata", "int"),
    ("BeatmapSetID", "beatmap_set_id", "Metadata", "int"),
    ("HPDrainRate", "hp_drain_rate", "Difficulty", "float"),
    ("CircleSize", "circle_size", "Difficulty", "float"),
    ("OverallDifficulty", "overall_difficulty", "Difficulty", "float"),
    ("ApproachRate", "approach_rate", "Difficulty", "float"),
    ("SliderMultiplier", "slider_multiplier", "Difficulty", "float"),
    ("SliderTickRate", "slider_tick_rate", "Difficulty", "float"),
]
SAMPLESETS = {"None": 0, "Normal": 1, "Soft": 2, "Drum": 3}
SECTIONS = ["General", "Editor", "Metadata", "Difficulty", "Events", "TimingPoints", "HitObjects"]


def default_doc():
    return dict(
        keys=4,
        meta={
            "AudioFilename": "audio.mp3", "AudioLeadIn": "0", "PreviewTime": "-1", "Countdown": "0", "SampleSet": "Soft",
            "StackLeniency": "0.7", "Mode": "3", "LetterboxInBreaks": "0", "SpecialStyle": "0", "WidescreenStoryboard": "1",
            "DistanceSpacing": "0.4", "BeatDivisor": "8", "GridSize": "4", "TimelineZoom": "1.9",
            "Title": "t", "TitleUnicode": "t", "Artist": "a", "ArtistUnicode": "a", "Creator": "c", "Version": "v", "Source": "s",
            "Tags": "x y", "BeatmapID": "1", "BeatmapSetID": "2",
            "HPDrainRate": "7.5", "OverallDifficulty": "8", "ApproachRate": "5", "SliderMultiplier": "1.4", "SliderTickRate": "1",
        },
        background="BG.png",
        samples=[],  # (time:int, file:str, volume:int)
        tps=[dict(time="0", bl="500", meter=4, ss=1, si=0, vol=50, un=1, fx=0)],
        objs=[dict(kind="hit", col=0, xmode="centre", time=0, hs=0, ss=0, ads=0, ci=0, vol=0, file="")],
        structure=dict(crlf=False, trailing=False, extra_section=False, shuffle_objs=False, shuffle_tps=False, space_after_colon=False),
    )


def x_of(col, keys, xmode):
    lo = -(-col * 512 // keys)  # ceil(col*512/keys): lowest integer x with floor(x*keys/512) == col
    hi = -(-(col + 1) * 512 // keys) - 1
    if xmode == "lo":
        return lo
    if xmode == "hi":
        return hi
    return (512 * col + 256) // keys


def column_of(x, keys):
    return max(0, min(keys - 1, (x * keys) // 512))


def render(doc) -> list[str]:
    d = doc
    m = d["meta"]
    st = d["structure"]
    sep = ": " if st.get("space_after_colon") else ":"
    L = ["osu file format v14", "", "[General]"]
    for k, _, sec, _ in META_KEYS:
        if sec == "General" and k in m:
            L.append(f"{k}: {m[k]}")
    L += ["", "[Editor]"]
    for k, _, sec, _ in META_KEYS:
        if sec == "Editor" and k in m:
            L.append(f"{k}: {m[k]}")
    L += ["", "[Metadata]"]
    for k, _, sec, _ in META_KEYS:
        if sec == "Metadata" and k in m:
            L.append(f"{k}{sep}{m[k]}")
    L += ["", "[Difficulty]"]
    for k, _, sec, _ in META_KEYS:
        if sec == "Difficulty":
            if k == "CircleSize":
                L.append(f"CircleSize:{d['keys']}")
            elif k in m:
                L.append(f"{k}:{m[k]}")
    L += ["", "[Events]", "//Background and Video events", f'0,0,"{d["background"]}",0,0', "//Break Periods",
          "//Storyboard Layer 0 (Background)", "//Storyboard Layer 1 (Fail)", "//Storyboard Layer 2 (Pass)",
          "//Storyboard Layer 3 (Foreground)", "//Storyboard Layer 4 (Overlay)", "//Storyboard Sound Samples"]
    for t, f, v in d["samples"]:
        L.append(f'Sample,{t},0,"{f}",{v}')
    L.append("")
    if st.get("extra_section"):
        L += ["[Colours]", "Combo1 : 255,0,0", "Combo2 : 0,255,0", ""]
    L.append("[TimingPoints]")
    tps = list(d["tps"])
    if st.get("shuffle_tps"):
        tps = tps[::-1]
    for tp in tps:
        L.append(f"{tp['time']},{tp['bl']},{tp['meter']},{tp['ss']},{tp['si']},{tp['vol']},{tp['un']},{tp['fx']}")
    L += ["", "", "[HitObjects]"]
    objs = list(d["objs"])
    if st.get("shuffle_objs"):
        objs = objs[::-1]
    for o in objs:
        x = x_of(o["col"], d["keys"], o["xmode"])
        if o["kind"] == "hit":
            L.append(f"{x},192,{o['time']},1,{o['hs']},{o['ss']}:{o['ads']}:{o['ci']}:{o['vol']}:{o['file']}")
        else:
            L.append(f"{x},192,{o['time']},128,{o['hs']},{o['end']}:{o['ss']}:{o['ads']}:{o['ci']}:{o['vol']}:{o['file']}")
    if st.get("trailing"):
        L = [l + "  " if l and not l.startswith("[") else l for l in L]
    if st.get("crlf"):
        L = [l + "\r" for l in L]
    return L


def denotation(doc) -> dict:
    """What the format defines for the rendered text."""
    d = doc
    hits, holds, bpms, svs = [], [], [], []
    for o in d["objs"]:
        base = dict(offset=float(o["time"]), column=o["col"], hitsound_set=o["hs"], sample_set=o["ss"], addition_set=o["ads"],
                    custom_set=o["ci"], volume=o["vol"], hitsound_file=o["file"])
        if o["kind"] == "hit":
            hits.append(base)
        else:
            holds.append(dict(base, length=float(o["end"]) - float(o["time"])))
    for tp in d["tps"]:
        common = dict(offset=float(tp["time"]), sample_set=tp["ss"], sample_set_index=tp["si"], volume=tp["vol"], kiai=bool(tp["fx"] & 1))
        if tp["un"] == 1:
            bpms.append(dict(common, bpm=60000.0 / float(tp["bl"]), metronome=tp["meter"]))
        else:
            svs.append(dict(common, multiplier=-100.0 / float(tp["bl"])))
    samples = [dict(offset=float(t), sample_file=f, volume=v) for t, f, v in d["samples"]]
    meta = {}
    for k, attr, sec, kind in META_KEYS:
        if k == "CircleSize":
            meta[attr] = float(d["keys"])
            continue
        if k not in d["meta"]:
            continue
        raw = d["meta"][k].strip()
        if kind == "str":
            meta[attr] = raw
        elif kind == "int":
            meta[attr] = int(raw)
        elif kind == "float":
            meta[attr] = float(raw)
        elif kind == "bool":
            meta[attr] = bool(int(raw))
        elif kind == "sampleset":
            meta[attr] = SAMPLESETS[raw]
        elif kind == "tags":
            meta[attr] = [t for t in raw.split(" ") if t]
    meta["background_file_name"] = d["background"]
    return dict(hits=hits, holds=holds, bpms=bpms, svs=svs, samples=samples, meta=meta)


# ---- independent parser of written text ----------------------------------------------------------------
class Malformed(Exception):
    pass


_INT = re.compile(r"^-?\d+$")
_NUM = re.compile(r"^-?(\d+\.?\d*|\.\d+)([eE][-+]?\d+)?$")


def parse(lines: list[str]) -> dict:
    """Parses text written by the library. Raises Malformed when the text is not well-formed v14 mania."""
    text = "\n".join(lines)
    ls = [l.rstrip("\r") for l in text.split("\n")]
    if not ls or ls[0].strip() != "osu file format v14":
        raise Malformed(f"header line: {ls[:1]}")
    sec = None
    secs: dict[str, list[str]] = {}
    order = []
    for l in ls[1:]:
        s = l.strip()
        if not s:
            continue
        mm = re.match(r"^\[(\w+)\]$", s)
        if mm:
            sec = mm.group(1)
            if sec in secs:
                raise Malformed(f"duplicate section {sec}")
            secs[sec] = []
            order.append(sec)
            continue
        if sec is None:
            raise Malformed(f"text outside a section: {s[:40]}")
        secs[sec].append(s)
    want = [s for s in SECTIONS]
    if [s for s in order if s in want] != want:
        raise Malformed(f"sections missing or out of order: {order}")
    meta = {}
    kv = {}
    for sname in ("General", "Editor", "Metadata", "Difficulty"):
        for s in secs[sname]:
            if ":" not in s:
                raise Malformed(f"no colon in {sname} line {s[:40]}")
            k, v = s.split(":", 1)
            kv[k.strip()] = v.strip()
    for k, attr, secn, kind in META_KEYS:
        if k not in kv:
            continue
        raw = kv[k]
        try:
            if kind == "str":
                meta[attr] = raw
            elif kind == "int":
                if not _INT.match(raw):
                    raise ValueError(raw)
                meta[attr] = int(raw)
            elif kind == "float":
                meta[attr] = float(raw)
                if not math.isfinite(meta[attr]):
                    raise ValueError(raw)
            elif kind == "bool":
                if raw not in ("0", "1"):
                    raise ValueError(raw)
                meta[attr] = raw == "1"
            elif kind == "sampleset":
                if raw not in SAMPLESETS:
                    raise ValueError(raw)
                meta[attr] = SAMPLESETS[raw]
            elif kind == "tags":
                meta[attr] = [t for t in raw.split(" ") if t]
        except ValueError as e:
            raise Malformed(f"value of {k}: {e}")
    if "circle_size" not in meta or meta["circle_size"] != int(meta["circle_size"]) or not 1 <= meta["circle_size"] <= 18:
        raise Malformed(f"CircleSize {meta.get('circle_size')}")
    keys = int(meta["circle_size"])
    if meta.get("mode") != 3:
        raise Malformed(f"Mode {meta.get('mode')}")
    samples = []
    for s in secs["Events"]:
        if s.startswith("//"):
            continue
        f = s.split(",")
        if f[0] == "Sample":
            if len(f) != 5 or not _INT.match(f[1]) or not _INT.match(f[2]) or not _INT.match(f[4]):
                raise Malformed(f"sample event {s}")
            samples.append(dict(offset=float(int(f[1])), sample_file=f[3].strip('"'), volume=int(f[4])))
        elif f[0] in ("0", "1", "2", "Video", "Break", "Sprite", "Animation"):
            if f[0] == "0" and len(f) >= 3:
                meta["background_file_name"] = f[2].strip('"')
        else:
            raise Malformed(f"event line {s[:40]}")
    bpms, svs = [], []
    for s in secs["TimingPoints"]:
        f = s.split(",")
        if len(f) != 8:
            raise Malformed(f"timing point arity {s}")
        if not all(_NUM.match(x) for x in f[:2]) or not all(_INT.match(x) for x in f[2:]):
            raise Malformed(f"timing point fields {s}")
        t, bl = float(f[0]), float(f[1])
        if not (math.isfinite(t) and math.isfinite(bl)) or bl == 0:
            raise Malformed(f"timing point values {s}")
        common = dict(offset=t, sample_set=int(f[3]), sample_set_index=int(f[4]), volume=int(f[5]), kiai=bool(int(f[7]) & 1))
        if f[6] == "1":
            if bl <= 0:
                raise Malformed(f"uninherited point with non-positive beat length {s}")
            bpms.append(dict(common, bpm=60000.0 / bl, metronome=int(f[2])))
        elif f[6] == "0":
            svs.append(dict(common, multiplier=-100.0 / bl))
        else:
            raise Malformed(f"uninherited flag {s}")
    hits, holds = [], []
    for s in secs["HitObjects"]:
        f = s.split(",")
        if len(f) != 6:
            raise Malformed(f"hit object arity {s}")
        if not all(_INT.match(x) for x in f[:5]):
            raise Malformed(f"hit object integer fields {s}")
        x, y, t, ty, hs = (int(v) for v in f[:5])
        if not 0 <= x < 512:
            raise Malformed(f"x out of [0,512): {s}")
        col = column_of(x, keys)
        c = f[5].split(":")
        if ty & 128:
            if len(c) != 6 or not all(_INT.match(v) for v in c[:5]):
                raise Malformed(f"hold extras {s}")
            end = int(c[0])
            holds.append(dict(offset=float(t), column=col, length=float(end - t), hitsound_set=hs, sample_set=int(c[1]),
                              addition_set=int(c[2]), custom_set=int(c[3]), volume=int(c[4]), hitsound_file=c[5]))
        elif ty & 1:
            if len(c) != 5 or not all(_INT.match(v) for v in c[:4]):
                raise Malformed(f"hit extras {s}")
            hits.append(dict(offset=float(t), column=col, hitsound_set=hs, sample_set=int(c[0]), addition_set=int(c[1]),
                             custom_set=int(c[2]), volume=int(c[3]), hitsound_file=c[4]))
        else:
            raise Malformed(f"hit object type {ty}: {s}")
    return dict(hits=hits, holds=holds, bpms=bpms, svs=svs, samples=samples, meta=meta)
