"""Independent reference interpreter of BMS/BME/PMS text (my reading of the BMS command memo), used as the oracle for what a
written BMS file denotes. Exact arithmetic in Fractions; 4 beats per measure (channel 02 is not supported and rejected).

parse(data, layout) -> dict(header, hits[(col, t_ms, wav)], holds[(col, t_ms, len_ms, wav)], tempo[(t_ms, bpm)], syntax[problems])
The channel->column tables are written out here on purpose (they must not be imported from the library under test)."""
from __future__ import annotations

import re
from fractions import Fraction as F

LAYOUTS = {
    "BMS": {"11": 0, "21": 7, "12": 1, "22": 8, "13": 2, "23": 9, "14": 3, "24": 10, "15": 4, "25": 11, "16": 5, "26": 12, "17": 6, "27": 13},
    "BME": {"16": 0, "21": 8, "11": 1, "22": 9, "12": 2, "23": 10, "13": 3, "24": 11, "14": 4, "25": 12, "15": 5, "28": 13, "18": 6, "29": 14, "19": 7, "26": 15},
    "PMS": {"11": 0, "12": 1, "13": 2, "14": 3, "15": 4, "22": 5, "23": 6, "24": 7, "25": 8},
    "PMS_BME": {"11": 0, "21": 9, "12": 1, "22": 10, "13": 2, "23": 11, "14": 3, "24": 12, "15": 4, "25": 13, "18": 5, "28": 14, "19": 6, "29": 15, "16": 7, "26": 16, "17": 8, "27": 17},
    "PMS_5B": {"13": 0, "14": 1, "15": 2, "22": 3, "23": 4},
}

DATA_RE = re.compile(r"^#(\d{3})([0-9A-Za-z]{2}):(.*)$")
B36 = re.compile(r"^[0-9A-Za-z]*$")


def lib_layout(name):
    from reamber.bms.BMSChannel import BMSChannel

    return getattr(BMSChannel, name)


def parse(data, layout="BME"):
    if isinstance(data, bytes):
        data = data.decode("shift_jis")
    lines = [l.strip() for l in data.replace("\r\n", "\n").split("\n")]
    chan2col = LAYOUTS[layout]
    header, exbpm, wav, events, syntax = {}, {}, {}, [], []
    for ln, l in enumerate(lines):
        if not l:
            continue
        if not l.startswith("#"):
            syntax.append(f"line {ln}: text outside a command: {l[:30]!r}")
            continue
        m = DATA_RE.match(l)
        if m:
            meas, ch, d = int(m.group(1)), m.group(2).upper(), m.group(3).strip()
            if ch == "02":
                continue  # handled below (decimal measure length)
            if len(d) == 0 or len(d) % 2 or not B36.match(d):
                syntax.append(f"line {ln}: data field is not a non-empty even run of base-36 digits: {l[:40]!r}")
                continue
            n = len(d) // 2
            for i in range(n):
                v = d[2 * i : 2 * i + 2]
                if v != "00":
                    events.append((meas, F(i, n), ch, v))
            continue
        parts = l[1:].split(" ", 1)
        k = parts[0].upper()
        v = parts[1].strip() if len(parts) > 1 else ""
        if not re.match(r"^[A-Z0-9_%]+$", k):
            syntax.append(f"line {ln}: malformed header key {l[:30]!r}")
            continue
        if re.match(r"^BPM[0-9A-Z]{2}$", k):
            exbpm[k[3:]] = F(v)
        elif re.match(r"^WAV[0-9A-Z]{2}$", k):
            wav[k[3:]] = v
        else:
            header.setdefault(k, v)
    lnobj = header.get("LNOBJ", "").upper()
    if "BPM" not in header:
        syntax.append("no #BPM header")
        bpm0 = F(130)
    else:
        bpm0 = F(header["BPM"])
    # channel 02: the measure's length as a multiple of 4 beats (one measure only); the data field is a decimal number
    mlen = {}
    for ln, l in enumerate(lines):
        m2 = re.match(r"^#(\d{3})02:(\S+)$", l)
        if m2:
            try:
                mlen[int(m2.group(1))] = F(m2.group(2))
            except Exception:
                syntax.append(f"line {ln}: bad channel-02 value {l[:30]!r}")
    events = [e for e in events if e[2] != "02"]

    def mstart(meas):
        """Start of measure `meas` in units of 4-beat measures."""
        return sum((mlen.get(k, F(1)) for k in range(meas)), F(0))

    def absolute(meas, pos):
        return mstart(meas) + pos * mlen.get(meas, F(1))

    events = [(absolute(meas, pos), F(0), ch, v) for meas, pos, ch, v in events]
    tch = []
    for meas, pos, ch, v in events:
        if ch == "03":
            tch.append((meas + pos, F(int(v, 16))))
        elif ch == "08":
            if v.upper() not in exbpm:
                syntax.append(f"channel 08 refers to undefined #BPM{v}")
                continue
            tch.append((meas + pos, exbpm[v.upper()]))
    tch.sort(key=lambda x: x[0])
    segs = [(F(0), F(0), bpm0)]
    for pos, b in tch:
        p0, t0, b0 = segs[-1]
        segs.append((pos, t0 + (pos - p0) * 4 * F(60000) / b0, b))

    def time_of(p):
        act = [s for s in segs if s[0] <= p][-1]
        return act[1] + (p - act[0]) * 4 * F(60000) / act[2]

    per = {}
    for meas, pos, ch, v in events:
        if ch in chan2col:
            per.setdefault(chan2col[ch], []).append((meas + pos, v.upper()))
    hits, holds = [], []
    for col, evs in per.items():
        evs.sort(key=lambda x: x[0])
        prev = []
        for p, v in evs:
            if lnobj and v == lnobj:
                if not prev:
                    syntax.append(f"LNOBJ in column {col} with no preceding object")
                    continue
                hp, hv = prev.pop()
                holds.append((col, float(time_of(hp)), float(time_of(p) - time_of(hp)), wav.get(hv)))
            else:
                prev.append((p, v))
        hits.extend((col, float(time_of(p)), wav.get(v)) for p, v in prev)
    return dict(
        header=header,
        exbpm={k: float(v) for k, v in exbpm.items()},
        wav=wav,
        hits=sorted(hits, key=lambda x: (x[1], x[0])),
        holds=sorted(holds, key=lambda x: (x[1], x[0])),
        tempo=[(float(s[1]), float(s[2])) for s in segs],
        syntax=syntax,
        n_objects=sum(len(v) for v in per.values()),
    )


def step(tempo):
    """Step function without zero-length segments, equal neighbours merged."""
    pts = sorted(tempo, key=lambda x: x[0])
    out = []
    for i, (t, b) in enumerate(pts):
        if i + 1 < len(pts) and abs(pts[i + 1][0] - t) < 1e-6:
            continue
        if out and abs(out[-1][1] - b) <= 1e-9 * abs(b):
            continue
        out.append((t, b))
    return out
