"""Reference model of the timing engine in exact arithmetic (fractions.Fraction).

A tempo list is a sorted list of changes (bpm, metronome, measure, beat) with bpm/beat as Fractions. Positions are
(measure, beat). Between change k and k+1 every measure has metronome m_k beats, so the beat distance between two
positions inside segment k is (me1-me0)*m_k + (be1-be0)."""
from __future__ import annotations

from fractions import Fraction as F


def F_(x):
    """Exact value of a float / int / Fraction."""
    return x if isinstance(x, F) else F(x)


def change_times(init, changes):
    ts = [F_(init)]
    for (b0, m0, me0, be0), (b1, m1, me1, be1) in zip(changes[:-1], changes[1:]):
        ts.append(ts[-1] + ((me1 - me0) * F_(m0) + (F_(be1) - F_(be0))) * F(60000) / F_(b0))
    return ts


def active_index(changes, me, be):
    k = -1
    for i, c in enumerate(changes):
        if (c[2], F_(c[3])) <= (me, F_(be)):
            k = i
    return k


def offset_of(init, changes, me, be, ts=None):
    ts = ts or change_times(init, changes)
    k = active_index(changes, me, be)
    if k < 0:
        raise ValueError("query before the first change")
    b, m, cme, cbe = changes[k]
    return ts[k] + ((me - cme) * F_(m) + (F_(be) - F_(cbe))) * F(60000) / F_(b)


def active_at_time(ts, t):
    k = 0
    for i, x in enumerate(ts):
        if x <= t:
            k = i
    return k


def step_function(points):
    """points: iterable of (time, bpm). Returns the canonical step function: sorted, zero-length segments dropped
    (the later point at the same time wins), equal neighbours merged."""
    pts = sorted(((F_(t), F_(b)) for t, b in points), key=lambda x: x[0])
    out = []
    for t, b in pts:
        if out and out[-1][0] == t:
            out[-1] = (t, b)
        else:
            out.append((t, b))
    merged = []
    for t, b in out:
        if merged and merged[-1][1] == b:
            continue
        merged.append((t, b))
    return merged
