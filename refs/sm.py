"""StepMania .sm reference: (1) an abstract document with a renderer and its denotation by construction (oracle for the reader),
(2) an independent interpreter of .sm text (oracle for the writer). Beat->ms by exact Fraction integration over #BPMS from -#OFFSET.

Document:
    dict(header=dict(TITLE=.., ARTIST=.., ...), offset="0.000" (decimal text, seconds), bpms=[("0.000","120.000"), ...] (text pairs,
         in file order), bpms_sep=",", stops="empty"|"absent", pre_comment=bool, crlf=bool,
         charts=[dict(type, desc, diff, meter, radar, measures=[dict(rows=R, cells={(row, col): sym})], comments=bool, blank=bool)])
"""
from __future__ import annotations

import math
import re
from fractions import Fraction as F

KEYS = {"dance-single": 4, "dance-solo": 6, "kb7-single": 7, "dance-double": 8, "dance-threepanel": 3, "pump-single": 5, "dance-couple": 4}
KIND = {"1": "hit", "M": "mine", "L": "lift", "F": "fake", "K": "keysound"}


def timeline(offset_text, bpms):
    """bpms: [(beat Fraction, bpm Fraction)] any order. Returns (T(beat)->Fraction ms, segments)."""
    off = -F(offset_text) * 1000
    bp = sorted(bpms, key=lambda x: x[0])  # stable: of two entries on one beat the later one of the file is in force
    segs = [(bp[0][0], off, bp[0][1])]
    for b, v in bp[1:]:
        p0, t0, v0 = segs[-1]
        segs.append((b, t0 + (b - p0) * F(60000) / v0, v))

    def T(beat):
        s = [x for x in segs if x[0] <= beat]
        s = s[-1] if s else segs[0]
        return s[1] + (beat - s[0]) * F(60000) / s[2]

    return T, segs


# ----------------------------------------------------------------------------------------------- documents (reader oracle)
def render(doc):
    nl = "\r\n" if doc.get("crlf") else "\n"
    out = []
    if doc.get("pre_comment"):
        out.append("// generated file")
    for k, v in doc["header"].items():
        out.append(f"#{k}:{v};")
    out.append(f"#OFFSET:{doc['offset']};")
    sep = doc.get("bpms_sep", ",")
    out.append("#BPMS:" + sep.join(f"{b}={v}" for b, v in doc["bpms"]) + ";")
    if doc.get("stops", "empty") == "empty":
        out.append("#STOPS:;")
    for c in doc["charts"]:
        if c.get("comments"):
            out.append(f"//--------------- {c['type']} - {c['desc']} ----------------")
        out.append("#NOTES:")
        out.append(f"     {c['type']}:")
        out.append(f"     {c['desc']}:")
        out.append(f"     {c['diff']}:")
        out.append(f"     {c['meter']}:")
        out.append(f"     {c['radar']}:")
        keys = KEYS[c["type"]]
        ms = []
        for mi, m in enumerate(c["measures"]):
            rows = []
            for r in range(m["rows"]):
                rows.append("".join(m["cells"].get((r, k), "0") for k in range(keys)))
                if c.get("blank") and r == 0:
                    rows.append("")
            ms.append(nl.join(rows))
        sepm = (nl + ",  // measure" + nl) if c.get("comments") else (nl + "," + nl)
        out.append(sepm.join(ms))
        out.append(";")
    if doc.get("no_final_semicolon"):
        # the last chart is closed by the end of the file (with or without a final newline)
        out.pop()
        return nl.join(out) + (nl if doc["no_final_semicolon"] == "newline" else "")
    return nl.join(out) + nl


def denote(doc):
    """[dict(meta, objs sorted [(kind, col, t_ms Fraction, len Fraction)])] per chart + tempo change times."""
    T, segs = timeline(doc["offset"], [(F(b), F(v)) for b, v in doc["bpms"]])
    charts = []
    for c in doc["charts"]:
        objs, open_ = [], {}
        for mi, m in enumerate(c["measures"]):
            for r in range(m["rows"]):
                beat = F(4 * mi) + F(4 * r, m["rows"])
                for k in range(KEYS[c["type"]]):
                    ch = m["cells"].get((r, k), "0")
                    if ch == "0":
                        continue
                    t = T(beat)
                    if ch in "24":
                        open_[k] = (ch, t)
                    elif ch == "3":
                        kd, t0 = open_.pop(k)
                        objs.append(("hold" if kd == "2" else "roll", k, t0, t - t0))
                    else:
                        objs.append((KIND[ch], k, t, F(0)))
        charts.append(dict(meta=dict(type=c["type"], desc=c["desc"], diff=c["diff"], meter=c["meter"], radar=c["radar"]), objs=sorted(objs)))
    return dict(charts=charts, tempo_times=[s[1] for s in segs], tempo=[(s[1], s[2]) for s in segs])


# ----------------------------------------------------------------------------------------------- interpreter (writer oracle)
TAG_RE = re.compile(r"^[A-Z0-9]+$")


def parse(text):
    """Interprets .sm text by the StepMania rules. Returns dict(header, charts[meta, objs, rows], tempo, syntax[problems])."""
    syntax = []
    text = text.replace("\r\n", "\n")
    text = "\n".join(l.split("//")[0] for l in text.split("\n"))
    tags = []
    for tok in text.split(";"):
        tok = tok.strip()
        if not tok:
            continue
        if not tok.startswith("#"):
            syntax.append(f"text outside a tag: {tok[:40]!r}")
            continue
        name, sepc, val = tok[1:].partition(":")
        if not sepc or not TAG_RE.match(name.strip().upper()):
            syntax.append(f"malformed tag: {tok[:40]!r}")
            continue
        tags.append((name.strip().upper(), val))
    hdr, charts = {}, []
    for name, val in tags:
        if name == "NOTES":
            parts = val.split(":")
            if len(parts) != 6:
                syntax.append(f"#NOTES has {len(parts)} fields, expected 6")
                continue
            charts.append(dict(type=parts[0].strip(), desc=parts[1].strip(), diff=parts[2].strip(), meter=parts[3].strip(), radar=parts[4].strip(), data=parts[5]))
        else:
            if name in hdr:
                syntax.append(f"duplicate tag #{name}")
            hdr[name] = val.strip()
    for need in ("OFFSET", "BPMS"):
        if need not in hdr:
            syntax.append(f"missing #{need}")
    if syntax and ("OFFSET" not in hdr or "BPMS" not in hdr):
        return dict(header=hdr, charts=[], tempo=[], syntax=syntax)
    bp = []
    for e in hdr["BPMS"].split(","):
        e = e.strip()
        if not e:
            continue
        try:
            b, v = e.split("=")
            bp.append((F(b.strip()), F(v.strip())))
        except Exception:
            syntax.append(f"bad #BPMS entry {e!r}")
    if not bp:
        syntax.append("empty #BPMS")
        return dict(header=hdr, charts=[], tempo=[], syntax=syntax)
    try:
        T, segs = timeline(hdr["OFFSET"], bp)
    except Exception:
        syntax.append(f"bad #OFFSET {hdr['OFFSET']!r}")
        return dict(header=hdr, charts=[], tempo=[], syntax=syntax)
    stops = []
    for e in hdr.get("STOPS", "").split(","):
        e = e.strip()
        if e:
            try:
                b, v = e.split("=")
                stops.append((F(b.strip()), F(v.strip())))
            except Exception:
                syntax.append(f"bad #STOPS entry {e!r}")
    out = []
    for c in charts:
        keys = KEYS.get(c["type"])
        objs, open_ = [], {}
        measures = c["data"].split(",")
        if not c["data"].strip():
            measures = []  # a chart without any note data has no measures
        rows_all = []
        for mi, mtxt in enumerate(measures):
            rows = [r.strip() for r in mtxt.split("\n") if r.strip()]
            rows_all.append(rows)
            if not rows:
                syntax.append(f"chart {c['type']}: empty measure {mi}")
                continue
            R = len(rows)
            if R % 4:
                syntax.append(f"chart {c['type']}: measure {mi} has {R} rows (not a multiple of 4)")
            for ri, row in enumerate(rows):
                if keys is not None and len(row) != keys:
                    syntax.append(f"chart {c['type']}: measure {mi} row {ri} has {len(row)} symbols, expected {keys}")
                beat = F(4 * mi) + F(4 * ri, R)
                for col, ch in enumerate(row):
                    if ch == "0":
                        continue
                    t = T(beat)
                    if ch in "24":
                        open_[col] = (ch, t)
                    elif ch == "3":
                        if col not in open_:
                            syntax.append(f"chart {c['type']}: tail without head in column {col}")
                            continue
                        k, t0 = open_.pop(col)
                        objs.append(("hold" if k == "2" else "roll", col, float(t0), float(t - t0)))
                    elif ch in KIND:
                        objs.append((KIND[ch], col, float(t), 0.0))
                    else:
                        syntax.append(f"chart {c['type']}: unknown symbol {ch!r}")
        if open_:
            syntax.append(f"chart {c['type']}: unclosed hold/roll in columns {sorted(open_)}")
        out.append(dict(meta={k: c[k] for k in ("type", "desc", "diff", "meter", "radar")}, objs=sorted(objs), rows=rows_all))
    return dict(header=hdr, charts=out, tempo=[(float(s[1]), float(s[2])) for s in segs], stops=[(float(T(b)), float(v) * 1000) for b, v in stops], syntax=syntax)
