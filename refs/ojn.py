"""O2Jam .ojn reference: an encoder for abstract OJN documents (300-byte header + per-difficulty package lists) and their denotation
by construction (exact Fraction integration of measure positions, 4 beats per measure, float32 tempos taken at their exact value).

Document: dict(header=dict(...fields...), diffs=[[package, ...] x3]) ; package = dict(measure, channel, slots=[None | ("n", type) | ("b", bpm)])
  type: 0 normal note, 2 LN head, 3 LN tail ; channel 1 tempo, 2..8 note columns 0..6, 9.. autoplay (ignored)."""
from __future__ import annotations

import struct
from fractions import Fraction as F

HEADER_DEFAULT = dict(
    song_id=178, signature="ojn", encode_version=2.9000000953674316, genre=2, bpm=130.0, level=(4, 8, 9, 0), event_count=(11, 22, 33), note_count=(4, 5, 6), measure_count=(7, 8, 9),
    old_encode_version=29, old_song_id=178, old_genre=b"", bmp_size=19256, old_file_version=0, title="Title", artist="Artist", creator="Noter", ojm_file="o2ma178.ojm",
    cover_size=214025, duration=(121, 123, 125), note_offset=(300, 301, 302), cover_offset=198268,
)


def f32(x):
    """Exact value of x rounded to float32."""
    return struct.unpack("<f", struct.pack("<f", x))[0]


def header(h, package_count):
    def s(x, n):
        b = x.encode("ascii") if isinstance(x, str) else x
        assert len(b) <= n
        return b + b"\x00" * (n - len(b))

    out = struct.pack("<i", h["song_id"]) + s(h["signature"], 4) + struct.pack("<f", h["encode_version"]) + struct.pack("<i", h["genre"]) + struct.pack("<f", h["bpm"])
    out += struct.pack("<4h", *h["level"]) + struct.pack("<3i", *h["event_count"]) + struct.pack("<3i", *h["note_count"]) + struct.pack("<3i", *h["measure_count"]) + struct.pack("<3i", *package_count)
    out += struct.pack("<h", h["old_encode_version"]) + struct.pack("<h", h["old_song_id"]) + s(h["old_genre"], 20) + struct.pack("<i", h["bmp_size"]) + struct.pack("<i", h["old_file_version"])
    out += s(h["title"], 64) + s(h["artist"], 32) + s(h["creator"], 32) + s(h["ojm_file"], 32) + struct.pack("<i", h["cover_size"]) + struct.pack("<3i", *h["duration"]) + struct.pack("<3i", *h["note_offset"]) + struct.pack("<i", h["cover_offset"])
    assert len(out) == 300, len(out)
    return out


def package(p):
    b = struct.pack("<ihh", p["measure"], p["channel"], len(p["slots"]))
    for e in p["slots"]:
        if e is None:
            b += b"\x00\x00\x00\x00"
        elif e[0] == "b":
            b += struct.pack("<f", e[1])
        else:
            vol, pan = (e[2], e[3]) if len(e) > 2 else (3, 8)
            b += struct.pack("<hBB", 1, (vol << 4) | pan, e[1])
    return b


def encode(doc):
    body = b"".join(b"".join(package(p) for p in d) for d in doc["diffs"])
    return header(doc["header"], tuple(len(d) for d in doc["diffs"])) + body


def denote(doc):
    """Per difficulty: dict(hits [(col, t)], holds [(col, t, len)], tempo [(t, bpm)]) with exact Fractions."""
    out = []
    bpm0 = F(f32(doc["header"]["bpm"]))
    for d in doc["diffs"]:
        tch = []
        for p in d:
            if p["channel"] == 1:
                n = len(p["slots"])
                for i, e in enumerate(p["slots"]):
                    if e is not None and e[0] == "b" and e[1] != 0:
                        tch.append((F(p["measure"]) + F(i, n), F(f32(e[1]))))
        tch.sort(key=lambda x: x[0])
        segs = [(F(0), F(0), bpm0)]
        for pos, b in tch:
            p0, t0, b0 = segs[-1]
            segs.append((pos, t0 + (pos - p0) * 4 * F(60000) / b0, b))

        def T(pos, segs=segs):
            act = [s for s in segs if s[0] <= pos][-1]
            return act[1] + (pos - act[0]) * 4 * F(60000) / act[2]

        hits, holds, open_ = [], [], {}
        for p in d:
            if 2 <= p["channel"] <= 8:
                col = p["channel"] - 2
                n = len(p["slots"])
                for i, e in enumerate(p["slots"]):
                    if e is None or e[0] != "n":
                        continue
                    pos = F(p["measure"]) + F(i, n)
                    if e[1] == 0:
                        hits.append((col, T(pos)))
                    elif e[1] == 2:
                        open_[col] = pos
                    elif e[1] == 3:
                        hp = open_.pop(col)
                        holds.append((col, T(hp), T(pos) - T(hp)))
        out.append(dict(hits=sorted(hits), holds=sorted(holds), tempo=[(s[1], s[2]) for s in segs], unclosed=sorted(open_)))
    return out
