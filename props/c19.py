"""C19 — dominant bpm, scroll speed and SV normalisation follow their definitions.

Function enumeration on the real dominant_bpm / scroll_speed / sv_normalize: every layout of <=3 tempo points and <=2/3 SVs on a
100-ms grid (all coincidences: SV on a tempo point, two SVs at one time, SV before the first note / after the last), three note
layouts (incl. a hold as last object), override {None, 100}, for osu and Quaver (SV games) and BMS (no SVs).
Oracle: the definitions evaluated in exact Fractions."""
from __future__ import annotations

import itertools
from fractions import Fraction as F

from mc import charts

ID = "C19"
LARGE = "200 tempo points, 500 SVs, 1000 notes (osu, Quaver, BMS), with and without override"
TITLE = "Dominant bpm, scroll speed and SV normalisation follow their definitions"
RULE = (
    "function enumeration: a state is a distinct (game, tempo points, SVs, note layout, override); a transition is one call of "
    "dominant_bpm / scroll_speed / sv_normalize; non-trivial = >=2 distinct bpm values or >=1 SV"
)
ASSUMPTIONS = [
    "'last object' is read weakly: a dominant bpm is accepted if it is maximal for the last note head, the last note tail, or the last offset of any list (DESIGN 7.8)",
    "two SVs at one time: either multiplier accepted; an SV coincident with a tempo point wins over the implicit reset (DESIGN 7.6)",
    "before the first tempo point the first bpm is taken as active",
    "lists are sorted by time (row order is C15's business)",
]
TECHNIQUE = "exhaustive finite-domain enumeration of dominant_bpm / scroll_speed / sv_normalize on the real code against the definitions evaluated in exact arithmetic"
LEVEL_TEXT = (
    "Every layout of 1..3 tempo points (first at 0 or 100 ms, others anywhere on a 100-ms grid up to 500 ms, also after the last note; bpm in "
    "{60,120,180}) x 0..2 (quick) / 0..3 (thorough) SVs on the same grid with all coincidences x 3 note layouts (hits; first note after the "
    "first tempo point; a hold as last object) x override {None,100}, on osu, Quaver and (no-SV branch) BMS charts; clauses: dominant bpm is "
    "an argmax of active time, speed value at every returned breakpoint, every tempo/SV time is a breakpoint, index free of duplicates, "
    "sv_normalize count/time/product, override replaces the reference in both."
)
LEVEL_NOTE = "Bounded palettes (100-ms grid, 3 bpm values, 2 multipliers). Weak reading of 'last object' and of coincident SVs."

GRID = (0, 100, 200, 300, 400, 500)
BPMV = (60, 120, 180)
SVV = (0.5, 2.0)
NOTES = {
    "hits": [(0.0, 0, None), (400.0, 1, None)],
    "late_first": [(100.0, 0, None), (300.0, 1, None)],
    "hold_last": [(0.0, 0, None), (250.0, 1, 100.0)],
}


def bpm_layouts(tier):
    out = []
    for first in (0, 100):
        rest = [g for g in GRID if g > first]
        for n in (1, 2, 3):
            for ts in itertools.combinations(rest, n - 1):
                vals = itertools.product(BPMV, repeat=n)
                if tier == "quick" and n == 3:
                    vals = [(60, 120, 180), (120, 60, 120), (180, 180, 60)]
                if tier == "quick" and first == 100 and n > 2:
                    continue
                for v in vals:
                    out.append(tuple(zip((first,) + ts, v)))
    return out


def sv_layouts(tier):
    out = [()]
    grid = GRID[:5] if tier == "quick" else GRID
    for n in (1, 2) if tier == "quick" else (1, 2, 3):
        for ts in itertools.combinations_with_replacement(grid, n):
            vals = itertools.product(SVV, repeat=n)
            if n == 3:
                vals = [(0.5, 2.0, 0.5), (2.0, 2.0, 0.5)]
            for v in vals:
                out.append(tuple(zip(ts, v)))
    return out


def bound(tier, seed):
    return dict(tempo_layouts=len(bpm_layouts(tier)), sv_layouts=len(sv_layouts(tier)), note_layouts=list(NOTES), games=["osu", "qua", "bms"], overrides=[None, 100], grid=list(GRID), bpm=list(BPMV), multipliers=list(SVV))


LARGE_NOTES = [(210.0 * i, i % 4, 100.0 if i % 7 == 5 else None) for i in range(1000)]
# size: 200 tempo points (one second apart, four values in turn), 500 SVs (some on tempo points), 1000 notes
LARGE_BP = tuple((1000 * k, (120, 90, 180, 60)[k % 4]) for k in range(200))
LARGE_SV = tuple((400 * j, 0.5 + (j % 5) * 0.25) for j in range(500))


def roots(tier, seed):
    nb = len(bpm_layouts(tier))
    return [dict(game=g, b=i) for g in ("osu", "qua", "bms") for i in range(nb)] + [dict(game=g, large=True) for g in ("osu", "qua", "bms")]


_C = {}


def explore(root, tier, ctx):
    if tier not in _C:
        _C[tier] = (bpm_layouts(tier), sv_layouts(tier))
    bl, sl = _C[tier]
    game = root["game"]
    if root.get("large"):
        for ov in (None, 100.0):
            check_one(game, LARGE_BP, LARGE_SV if game != "bms" else (), "large", ov, ctx)
        return
    bp = bl[root["b"]]
    svs = sl if game != "bms" else [()]
    if game == "qua" and tier == "quick":
        svs = [s for s in sl if len(s) <= 1] + [s for s in sl if len(s) == 2 and s[0][0] == s[1][0]]
    if tier == "thorough":
        # three SVs only on tempo lists of <= 2 points; Quaver (same code path as osu) with <= 2 SVs and the quick tempo lists
        if len(bp) > 2:
            svs = [s for s in svs if len(s) <= 2]
        if game == "qua":
            if bp not in set(bpm_layouts("quick")):
                return
            svs = [s for s in svs if len(s) <= 2]
    for sv in svs:
        for nk in NOTES:
            for ov in (None, 100.0, "i64", "f32"):
                if isinstance(ov, str) and (nk != "hits" or len(sv) > 1):
                    continue  # the override given as a numpy scalar (what `m.bpms.bpm.min()` returns): on the plain note layout
                if tier == "quick" and (ov is not None or nk != "hits") and (len(sv) > 1 or (ov is not None and nk != "hits")):
                    continue
                if tier == "thorough" and ov is not None and nk != "hits":
                    continue
                check_one(game, bp, sv, nk, ov, ctx)


def replay(case, ctx):
    check_one(case["game"], tuple(tuple(x) for x in case["bpms"]), tuple(tuple(x) for x in case["svs"]), case["notes"], case["override"], ctx)


def dom_sets(bp, lasts):
    """Union over the candidate 'last object' times of the argmax sets of total active time from the first tempo point."""
    ok = set()
    for last in lasts:
        tot = {}
        for (t, b), nx in zip(bp, [x[0] for x in bp[1:]] + [None]):
            end = last if nx is None else min(nx, last)
            tot[b] = tot.get(b, F(0)) + max(F(end) - F(t), F(0))
        mx = max(tot.values())
        ok |= {b for b, v in tot.items() if v == mx}
    return ok


def active_bpm(bp, t):
    act = [b for bt, b in bp if bt <= t]
    return act[-1] if act else bp[0][1]


def active_mults(bp, svs, t):
    ev = [(bt, 0, 1.0) for bt, _ in bp] + [(st, 1, m) for st, m in svs]
    ev = [e for e in ev if e[0] <= t]
    if not ev:
        return {1.0}
    tmax = max(e[0] for e in ev)
    last = [e for e in ev if e[0] == tmax]
    svl = [e for e in last if e[1] == 1]
    return {e[2] for e in svl} if svl else {1.0}


def check_one(game, bp, svs, nk, ov, ctx):
    from reamber.algorithms.analysis import scroll_speed
    from reamber.algorithms.generate import sv_normalize
    from reamber.algorithms.utils import dominant_bpm

    case = dict(game=game, bpms=[list(x) for x in bp], svs=[list(x) for x in svs], notes=nk, override=ov)
    nontriv = len({b for _, b in bp}) > 1 or bool(svs)
    ctx.state(("c19", game, bp, svs, nk, ov), nontrivial=nontriv)
    if nontriv and len(bp) == 3 and len(svs) == 2 and len(ctx.samples) < 1:
        ctx.sample(case)
    notes = NOTES[nk] if nk in NOTES else LARGE_NOTES
    site = dict(game=game)

    second_use = ov is None and nk == "hits" and len(bp) >= 2 and len(svs) <= 1

    def mk():
        m = charts.make_map(game, notes, [(float(t), float(b)) for t, b in bp], [(float(t), m) for t, m in svs] if game != "bms" else ())
        if game == "qua" and len(bp) % 2 == 0:
            # a header field that is not an SV point: "times the active SV multiplier", 1 where no SV is active
            m.initial_scroll_velocity = 2.5
        if second_use:
            # second use of the same chart object: analyse it once with the bpm values rotated, then put the real values in place
            real = m.bpms.bpm.tolist()
            m.bpms.bpm = real[1:] + real[:1]
            try:
                dominant_bpm(m)
                scroll_speed(m)
            except Exception:
                pass
            m.bpms.bpm = real
        # rows and row labels are representation, not content: one note layout gets its tempo and SV rows in reverse order,
        # another gets them in time order under non-default labels (what sorted() / a filter leaves behind)
        if nk == "late_first":
            for l in (m.bpms, getattr(m, "svs", None)):
                if l is not None and len(l) > 1:
                    l.df = l.df.iloc[::-1]
        elif nk == "hold_last":
            for l in (m.bpms, getattr(m, "svs", None)):
                if l is not None and len(l) > 1:
                    l.df = l.df.iloc[::-1].reset_index(drop=True).sort_values("offset", kind="stable")
        return m

    heads = [n[0] for n in notes]
    tails = [n[0] + (n[2] or 0.0) for n in notes]
    everything = heads + [t for t, _ in bp] + [t for t, _ in svs]
    doms = dom_sets(bp, {max(heads), max(tails), max(everything)})
    ctx.case()
    # dominant bpm
    ctx.transition()
    d = None
    m1 = mk()
    snap = {k: v.df.copy() for k, v in m1.objs.items()}
    try:
        d = float(dominant_bpm(m1))
        ctx.check("dominant.argmax", d in {float(x) for x in doms}, site=site, case=case, observed=d, expected=sorted(doms))
    except Exception as e:
        ctx.check("dominant.raises", False, site=dict(site, exc=type(e).__name__), case=case, observed=f"{type(e).__name__}: {e}"[:300], expected=sorted(doms))
    if isinstance(ov, str):
        import numpy as np

        ov = np.int64(100) if ov == "i64" else np.float32(100)
    refs = {float(ov)} if ov else {float(x) for x in doms}
    # scroll speed
    ctx.transition()
    if set(m1.objs) != set(snap) or any(not snap[k].equals(v.df) for k, v in m1.objs.items()):
        m1 = mk()  # dominant_bpm changed its argument (C14's business): do not let that leak into this oracle
    try:
        s = scroll_speed(m1, ov) if ov else scroll_speed(m1)
        idx = [float(x) for x in s.index.tolist()]
        vals = [float(x) for x in s.tolist()]
        ctx.outcome((tuple(idx), tuple(round(v, 9) for v in vals)))
        bad = []
        for t, v in zip(idx, vals):
            b = active_bpm(bp, t)
            exp = {b / r * (m if game != "bms" else 1.0) for r in refs for m in active_mults(bp, svs, t)}
            if not any(abs(v - e) <= 1e-9 * max(1.0, abs(e)) for e in exp):
                bad.append((t, v, sorted(exp)))
        ctx.check("speed.value", not bad, site=dict(site, override=ov is not None), case=case, observed=bad[:4], expected="bpm(t)/reference*multiplier(t) at every returned time")
        need = {float(t) for t, _ in bp} | ({float(t) for t, _ in svs} if game != "bms" else set())
        miss = sorted(need - set(idx))
        ctx.check("speed.breakpoints", not miss, site=site, case=case, observed=dict(index=idx, missing=miss), expected=sorted(need))
        ctx.check("speed.index_unique", len(set(idx)) == len(idx), site=site, case=case, observed=idx, expected="no duplicate times")
    except Exception as e:
        ctx.check("speed.raises", False, site=dict(site, exc=type(e).__name__), case=case, observed=f"{type(e).__name__}: {e}"[:300], expected="a series")
    # SV normalisation
    if game != "bms":
        ctx.transition()
        try:
            m = mk()
            r = sv_normalize(m, ov) if ov else sv_normalize(m)
            ts = [float(x) for x in r.offset.tolist()]
            ms = [float(x) for x in r.multiplier.tolist()]
            ctx.check("svnorm.type", type(r) is type(m.svs), site=site, case=case, observed=type(r).__name__, expected=type(m.svs).__name__)
            ctx.check("svnorm.count", len(ts) == len(bp), site=site, case=case, observed=len(ts), expected=len(bp))
            ctx.check("svnorm.time", sorted(ts) == sorted(float(t) for t, _ in bp), site=site, case=case, observed=ts, expected=[t for t, _ in bp])
            okp = len(ts) == len(bp) and any(all(abs(mm * b - rr) <= 1e-9 * rr for (t, b), mm in zip(sorted(bp), [x for _, x in sorted(zip(ts, ms))])) for rr in refs) if len({t for t, _ in bp}) == len(bp) else True
            ctx.check("svnorm.product", okp, site=dict(site, override=ov is not None), case=case, observed=list(zip(ts, ms)), expected=f"multiplier*bpm in {sorted(refs)}")
        except Exception as e:
            ctx.check("svnorm.raises", False, site=dict(site, exc=type(e).__name__), case=case, observed=f"{type(e).__name__}: {e}"[:300], expected="an SV list")
