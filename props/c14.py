"""C14 — query, generate, convert and write operations never modify their inputs.

History BFS on real charts/mapsets of the five games: every reachable argument state (start states x optional earlier stack edit /
rate / full-LN) x every listed operation in every argument position; full canonical snapshot (values, columns, dtypes, row labels,
metadata) before and after; for results documented as copies, the result is scribbled on and the argument snapshotted again."""
from __future__ import annotations

import dataclasses

from mc import canon, charts, core, starts

ID = "C14"
LARGE = dict(quick="charts of 300 notes, every operation", thorough="charts of 300 and 1100 notes")
TITLE = "Query, generate, convert and write operations never modify their inputs"
RULE = (
    "history BFS: a state is a distinct canonical argument (chart/mapset/list reached by a short history); a transition is one library "
    "operation applied to it; non-trivial = the argument has rows in every list the operation reads"
)
ASSUMPTIONS = [
    "an operation that raises on some argument state is not a C14 violation, but the argument must still be identical afterwards",
    "results documented as copies: deepcopy, rate, full_ln, hitsound_copy (w.r.t. its target), move_start_to/move_end_to; converters are not documented as copies (DESIGN 7.4) and only arg.identical is checked for them",
    "'changing the result' = in-place cell stores on every list frame, column replacement through the list setters, a stack edit, and appending to list/dict-valued metadata",
]
TECHNIQUE = "explicit-state BFS over short histories on real charts/mapsets; before/after canonical snapshot of every argument for every listed operation; scribble probe on documented copies"
LEVEL_TEXT = (
    "Charts of osu, Quaver, StepMania, BMS, O2Jam in 4-5 start states (plain, empty lists, label gaps, reversed rows, read from file) and "
    "StepMania/O2Jam mapsets, each optionally preceded by a stack edit (relabelled rows, float dtypes), a rate change or full-LN (depth <=1 "
    "quick, <=2 thorough): every listed operation -- list filters after/before/between with flags and hold variants, slices, masks, "
    "sorted, append (item and list, sort T/F), move_start_to/move_end_to, deepcopy, iteration and offsets; Map/MapSet rate, deepcopy, all 17 "
    "converters (with column shifts), the 4 writers, full_ln, hitsound_copy in both argument positions, sv_normalize, scroll_speed, "
    "dominant_bpm, Pattern.from_note_lists(...).group() -- with a full canonical snapshot of every argument before and after, and a "
    "scribble-on-the-result probe for documented copies."
)
LEVEL_NOTE = "Bounded: charts of <=5 notes; histories of depth <=2. Converters' aliasing of metadata lists with their source is not claimed (DESIGN 7.4)."

PRE1 = [None, "stack", "rate", "full_ln"]


def subjects(tier):
    out = []
    for g in charts.GAMES:
        for v in starts.variants(g):
            pres = [(p,) for p in PRE1]
            if tier == "thorough":
                pres += [(a, b) for a in PRE1[1:] for b in PRE1[1:]]
            elif v not in ("plain", "gaps", "read"):
                pres = [(None,), ("stack",)]
            for pre in pres:
                out.append(("map", g, v, pre))
    for g in ("sm", "o2j"):
        for pre in [(None,), ("stack",), ("rate",)]:
            out.append(("set", g, "plain", pre))
    # size: charts of 300 notes (thorough: 1100 as well)
    for g in charts.GAMES:
        out.append(("map", g, "large", (None,)))
        if tier == "thorough":
            out.append(("map", g, "large1100", (None,)))
    return out


def bound(tier, seed):
    return dict(subjects=len(subjects(tier)), earlier_operations=[str(p) for p in PRE1], history_depth=1 if tier == "quick" else 2, games=list(charts.GAMES))


def roots(tier, seed):
    return [dict(i=i) for i in range(len(subjects(tier)))]


def build(kind, g, v, pre):
    from reamber.algorithms.generate import full_ln

    x = starts.make(g, v) if kind == "map" else starts.make_set(g)
    for p in pre:
        if p == "stack":
            s = x.stack()
            s.offset += 0
        elif p == "rate":
            x = x.rate(1.5)
        elif p == "full_ln" and kind == "map":
            x = full_ln(x, 150, 100)
    return x


def snap(x):
    from reamber.base.lists.TimedList import TimedList

    if isinstance(x, TimedList):
        return canon.canon_list(x)
    if hasattr(x, "maps"):
        return canon.canon_mapset(x)
    if hasattr(x, "objs"):
        return canon.canon_map(x)
    return canon.cell(x)


# ---------------------------------------------------------------------------------------------------- operation catalogue
def list_ops(l):
    """[(label, fn(list) -> result, documented copy?)] for one TimedList."""
    from reamber.base.lists.notes.HoldList import HoldList

    ops = [
        ("sorted", lambda a: a.sorted(), False),
        ("sorted_rev", lambda a: a.sorted(reverse=True), False),
        ("after", lambda a: a.after(1000.0), False),
        ("after_incl", lambda a: a.after(1000.0, include_end=True), False),
        ("before", lambda a: a.before(3000.0), False),
        ("before_incl", lambda a: a.before(3000.0, include_end=True), False),
        ("between", lambda a: a.between(500.0, 3000.0), False),
        ("between_incl", lambda a: a.between(500.0, 3000.0, include_ends=(True, True)) if not isinstance(a, HoldList) else a.between(500.0, 3000.0, include_ends=(True, True)), False),
        ("slice", lambda a: a[0:2], False),
        ("slice_rev", lambda a: a[::-1], False),
        ("mask", lambda a: a[a.offset > 1000.0], False),
        ("deepcopy", lambda a: a.deepcopy(), True),
        ("append_list", lambda a: a.append(a), False),
        ("append_list_sorted", lambda a: a.append(a, sort=True), False),
        # one operand without rows: the result is still a list of its own
        ("append_empty_list", lambda a: a.append(type(a)([])), False),
        ("append_empty_frame", lambda a: a.append(type(a)([]).df), False),
        ("empty_append_list", lambda a: type(a)([]).append(a), False),
        ("iterate", lambda a: [i for i in a], False),
        ("offsets", lambda a: (a.first_offset(), a.last_offset(), a.first_last_offset()) if len(a) else None, False),
        ("describe", lambda a: a.describe(), False),
    ]
    if len(l):
        ops += [
            ("item", lambda a: a[0], False),
            ("append_item", lambda a: a.append(a[0]), False),
            ("append_item_sorted", lambda a: a.append(a[len(a) - 1], sort=True), False),
            ("move_start_to", lambda a: a.move_start_to(123.0), True),
            ("move_end_to", lambda a: a.move_end_to(9000.0), True),
            ("time_diff", lambda a: a.time_diff(), False),
        ]
    if isinstance(l, HoldList):
        ops += [
            ("after_tail", lambda a: a.after(2500.0, include_tail=True), False),
            ("before_head", lambda a: a.before(2500.0, include_head=False), False),
            ("between_ht", lambda a: a.between(500.0, 3500.0, include_head=False, include_tail=True), False),
            ("head_tail", lambda a: (a.head_offset.tolist(), a.tail_offset.tolist()), False),
        ]
    return ops


def map_ops(g, kind):
    """[(label, fn(x) -> result, documented copy?, aux builder or None)] ; x is a Map (kind map) or MapSet (kind set)."""
    from reamber.algorithms import convert as C
    from reamber.algorithms.analysis import scroll_speed
    from reamber.algorithms.generate import full_ln, sv_normalize
    from reamber.algorithms.osu.hitsound_copy import hitsound_copy
    from reamber.algorithms.pattern import Pattern
    from reamber.algorithms.utils import dominant_bpm

    ops = [("rate", lambda x: x.rate(1.25), True), ("deepcopy", lambda x: x.deepcopy(), True)]
    if kind == "map":
        ops += [
            ("full_ln", lambda x: full_ln(x), True),
            ("full_ln_gap0", lambda x: full_ln(x, 0, 0), True),
            ("dominant_bpm", lambda x: dominant_bpm(x), False),
            ("scroll_speed", lambda x: scroll_speed(x), False),
            ("scroll_speed_override", lambda x: scroll_speed(x, 100.0), False),
            ("pattern_group", lambda x: Pattern.from_note_lists([x.hits, x.holds]).group(), False),
            ("pattern_group_notails", lambda x: Pattern.from_note_lists([x.hits, x.holds], include_tails=False).group(100.0, 1, False), False),
            ("describe", lambda x: x.describe(), False),
            ("stack_read", lambda x: (x.stack().offset.tolist(), x.stack().column.tolist()), False),
        ]
    if g == "osu":
        ops += [
            ("write", lambda x: x.write(), False),
            ("OsuToBMS", lambda x: C.OsuToBMS.convert(x), False),
            ("OsuToBMS+1", lambda x: C.OsuToBMS.convert(x, move_right_by=1), False),
            ("OsuToQua", lambda x: C.OsuToQua.convert(x), False),
            ("OsuToSM", lambda x: C.OsuToSM.convert(x), False),
            ("sv_normalize", lambda x: sv_normalize(x), False),
            ("sv_normalize_override", lambda x: sv_normalize(x, 100.0), False),
            ("hitsound_copy_as_source", lambda x: hitsound_copy(x, starts.make("osu", "plain")), False),
            ("hitsound_copy_as_target", lambda x: hitsound_copy(sounding_source(), x), True),
        ]
    elif g == "qua":
        ops += [
            ("write", lambda x: x.write(), False),
            ("QuaToBMS", lambda x: C.QuaToBMS.convert(x), False),
            ("QuaToBMS+1", lambda x: C.QuaToBMS.convert(x, move_right_by=1), False),
            ("QuaToOsu", lambda x: C.QuaToOsu.convert(x), False),
            ("QuaToSM", lambda x: C.QuaToSM.convert(x), False),
            ("sv_normalize", lambda x: sv_normalize(x), False),
            ("sv_normalize_override", lambda x: sv_normalize(x, 100.0), False),
        ]
    elif g == "bms":
        ops += [
            ("write", lambda x: x.write(), False),
            ("BMSToOsu", lambda x: C.BMSToOsu.convert(x), False),
            ("BMSToQua", lambda x: C.BMSToQua.convert(x), False),
            ("BMSToSM", lambda x: C.BMSToSM.convert(x), False),
        ]
    elif g == "sm":
        wrap = (lambda x: x) if kind == "set" else (lambda x: charts.make_mapset("sm", [x], dict(offset=0.0)))
        ops += [
            ("write", lambda x: wrap(x).write(), False),
            ("SMToBMS", lambda x: C.SMToBMS.convert(wrap(x)), False),
            ("SMToOsu", lambda x: C.SMToOsu.convert(wrap(x)), False),
            ("SMToQua", lambda x: C.SMToQua.convert(wrap(x)), False),
        ]
    elif g == "o2j":
        wrap = (lambda x: x) if kind == "set" else (lambda x: charts.make_mapset("o2j", [x], dict(level=[1, 2, 3])))
        ops += [
            ("O2JToBMS", lambda x: C.O2JToBMS.convert(wrap(x)), False),
            ("O2JToBMS0", lambda x: C.O2JToBMS.convert(wrap(x), move_right_by=0), False),
            ("O2JToOsu", lambda x: C.O2JToOsu.convert(wrap(x)), False),
            ("O2JToQua", lambda x: C.O2JToQua.convert(wrap(x)), False),
            ("O2JToSM", lambda x: C.O2JToSM.convert(wrap(x)), False),
            ("O2JToSM_merge", lambda x: C.O2JToSM.convert_merge(wrap(x)), False),
        ]
    return ops


def sounding_source():
    from reamber.osu import OsuBpm, OsuHit, OsuMap
    from reamber.osu.lists import OsuBpmList
    from reamber.osu.lists.notes import OsuHitList

    m = OsuMap()
    m.bpms = OsuBpmList([OsuBpm(0, 120)])
    m.hits = OsuHitList([OsuHit(500.0, 0, hitsound_set=2, volume=30), OsuHit(1000.0, 1, hitsound_file="a.wav"), OsuHit(1000.0, 2, hitsound_file="b.wav"), OsuHit(1000.0, 3, hitsound_file="c.wav")])
    return m


# ---------------------------------------------------------------------------------------------------- scribbling on a result
def scribble(res):
    """Changes the result in every way a caller plausibly would. Exceptions are ignored: this is a probe, not an oracle."""
    from reamber.base.lists.TimedList import TimedList

    def on_list(l):
        df = l.df
        try:
            for j, c in enumerate(df.columns):
                if len(df) == 0:
                    break
                v = df.iloc[0, j]
                if isinstance(v, (bool,)):
                    df.iloc[0, j] = not v
                elif isinstance(v, (int, float)) or hasattr(v, "dtype") and getattr(v.dtype, "kind", "") in "iuf":
                    df.iloc[0, j] = v + 12345
                elif isinstance(v, str):
                    df.iloc[0, j] = v + "~"
                elif isinstance(v, bytes):
                    df.iloc[0, j] = v + b"~"
                elif isinstance(v, list):
                    deep_scribble(v)
                    v.append("~")
        except Exception:
            pass
        try:
            l.offset += 777.0
        except Exception:
            pass
        try:
            if len(df):
                l[0, 0] = -4242.0  # TimedList.__setitem__ -> df.iloc store
        except Exception:
            pass

    def deep_scribble(x, depth=0):
        """Edits every nested mutable container reachable from x in place (dict values, list elements)."""
        if depth > 4:
            return
        if isinstance(x, dict):
            for k in list(x):
                if isinstance(x[k], (dict, list)):
                    deep_scribble(x[k], depth + 1)
                elif isinstance(x[k], (int, float)) and not isinstance(x[k], bool):
                    x[k] = x[k] + 4242
                elif isinstance(x[k], (str, bytes)):
                    x[k] = x[k] + type(x[k])(b"~" if isinstance(x[k], bytes) else "~")
            x["~"] = "~"
        elif isinstance(x, list):
            for e in x:
                if isinstance(e, (dict, list)):
                    deep_scribble(e, depth + 1)

    def on_meta(o):
        if not dataclasses.is_dataclass(o):
            return
        for f in dataclasses.fields(o):
            if f.name in ("objs", "maps"):
                continue
            v = getattr(o, f.name, None)
            try:
                if isinstance(v, list):
                    deep_scribble(v)
                    v.append("~")
                elif isinstance(v, dict):
                    deep_scribble(v)
                elif isinstance(v, TimedList):
                    on_list(v)
            except Exception:
                pass

    if isinstance(res, TimedList):
        on_list(res)
        return
    maps = res.maps if hasattr(res, "maps") else [res] if hasattr(res, "objs") else []
    for m in maps:
        try:
            s = m.stack()
            s.offset += 31.0
        except Exception:
            pass
        for l in m.objs.values():
            on_list(l)
        on_meta(m)
    if hasattr(res, "maps"):
        on_meta(res)
        try:
            res.maps.append(res.maps[0])
        except Exception:
            pass


# ---------------------------------------------------------------------------------------------------- exploration
def explore(root, tier, ctx):
    kind, g, v, pre = subjects(tier)[root["i"]]
    try:
        probe = build(kind, g, v, pre)
    except Exception as e:
        ctx.extra[f"unreachable:{g}:{pre}:{type(e).__name__}"] += 1
        return
    ctx.depth(len([p for p in pre if p]))
    ops = [("x", lab) for lab, _, _ in map_ops(g, kind)]
    maps = probe.maps if kind == "set" else [probe]
    for mi, m in enumerate(maps):
        for ln, l in list(m.objs.items()) + ([("samples", m.samples)] if hasattr(m, "samples") and hasattr(m.samples, "df") else []):
            for lab, _, _ in list_ops(l):
                ops.append((f"{mi}.{ln}", lab))
    for target, lab in ops:
        check_op(kind, g, v, pre, target, lab, ctx)


def replay(case, ctx):
    check_op(case["kind"], case["game"], case["start"], tuple(case["pre"]), case["target"], case["op"], ctx)


def check_op(kind, g, v, pre, target, lab, ctx):
    case = dict(kind=kind, game=g, start=v, pre=list(pre), target=target, op=lab)
    x = build(kind, g, v, pre)
    if target == "x":
        fn, copy = next((f, c) for l, f, c in map_ops(g, kind) if l == lab)
        arg = x
        site = dict(level="chart" if kind == "map" else "mapset", op=lab, game=g)
    else:
        mi, ln = target.split(".", 1)
        m = (x.maps if kind == "set" else [x])[int(mi)]
        arg = m.samples if ln == "samples" else m.objs[ln]
        fn, copy = next((f, c) for l, f, c in list_ops(arg) if l == lab)
        site = dict(level="list", op=lab, list_class=type(arg).__name__)
    before_arg = snap(arg)
    before_all = snap(x)
    nonempty = all(len(l) > 0 for m in (x.maps if kind == "set" else [x]) for l in m.objs.values()) if target == "x" else len(arg) > 0
    ctx.state(("c14", before_all if target == "x" else before_arg, target.split(".")[-1], lab), nontrivial=bool(nonempty))
    ctx.transition()
    ctx.case()
    res, exc = None, None
    try:
        res = fn(arg)
    except Exception as e:
        exc = e
        ctx.extra[f"op_raised:{lab}:{type(e).__name__}"] += 1
    ok = ctx.check("arg.identical", snap(arg) == before_arg and snap(x) == before_all, site=site, case=case, observed=diff_text(before_all, snap(x)), expected="identical snapshot (values, columns, dtypes, row labels, metadata)")
    ctx.outcome((lab, type(res).__name__, exc is None))
    if len(ctx.samples) < 1 and copy:
        ctx.sample(case)
    if exc is not None or not ok or not copy:
        return
    scribble(res)
    ctx.transition()
    ctx.check("result.independent", snap(arg) == before_arg and snap(x) == before_all, site=site, case=case, observed=diff_text(before_all, snap(x)), expected="argument unchanged after the result was modified")


def diff_text(a, b):
    """Short human-readable location of the first difference between two canonical forms."""
    if a == b:
        return "same"

    def walk(p, u, w):
        if type(u) != type(w):
            return f"{p}: {str(u)[:80]} -> {str(w)[:80]}"
        if isinstance(u, tuple):
            if len(u) != len(w):
                return f"{p}: length {len(u)} -> {len(w)}: {str(u)[:100]} -> {str(w)[:100]}"
            for i, (s, t) in enumerate(zip(u, w)):
                if s != t:
                    return walk(f"{p}[{i}]", s, t)
        return f"{p}: {str(u)[:80]} -> {str(w)[:80]}"

    return walk("", a, b)
