"""C08 — converting between games preserves chart content exactly, from any source state.

History BFS on real source charts/mapsets of the five games: start states x every sequence of <=2 (quick) / <=3 (thorough)
chart-editing operations (filters that leave label gaps, reversed rows, append, stack edits, rate, deepcopy, full-LN, list
replacement); in every reached state every applicable converter (17, with column shifts) runs and its result is compared with a
plain-Python reading of the source state."""
from __future__ import annotations

import dataclasses
import math

from mc import canon, charts, core, starts

ID = "C08"
LARGE = dict(quick="chart of 300 notes x 6 histories x every converter", thorough="charts of 300 and 1100 notes x 6 histories x every converter")
TITLE = "Converting between games preserves chart content exactly, from any source state"
RULE = (
    "history BFS: a state is a distinct canonical source chart/mapset reached by a sequence of editing operations; a transition is one "
    "editing operation or one converter call; non-trivial = the source has hits, holds and >=2 tempo points and its row labels are not 0..n-1"
)
ASSUMPTIONS = [
    "content is compared by value as multisets of rows (row order of the converted lists is not part of the property)",
    "difficulty name: the source's name (osu version, Quaver difficulty_name, BMS version, StepMania '<difficulty> <meter>' or description, O2Jam level number of that chart) must be contained in a text field of the target chart (osu version, Quaver difficulty_name, BMS version, StepMania description/difficulty/meter)",
    "creator is checked only where both games have one (BMS has none)",
    "a converter may refuse a chart whose key count the target cannot hold by raising ValueError; any other exception is a violation",
]
TECHNIQUE = "explicit-state BFS over editing histories of real source charts; in every reached state all applicable converters run and are compared with a plain-Python reading of the source"
LEVEL_TEXT = (
    "Sources: osu, Quaver, BMS charts and StepMania/O2Jam two-chart mapsets in start states plain / empty hold+SV lists / label gaps / "
    "reversed rows / read from file; histories of <=2 (quick) / <=3 (thorough) operations over {hits.after (label gaps), holds.between, "
    "reverse-sort every list, append an item, stack offset edit (relabels, float dtypes), masked stack column edit, rate 1.5, deepcopy, "
    "full_ln, empty the hold list}; in every state all 16 converters + O2JToSM.convert_merge (+ move_right_by 0/1 where offered): hits / "
    "holds / tempo points / SVs equal the source's by value, title-artist-creator-difficulty carried, only the target's declared columns, "
    "no missing cell, target classes, one chart per source chart, source snapshot-identical."
)
LEVEL_NOTE = "Bounded: charts of <=6 notes, history depth 2/3. Metadata mapping table in ASSUMPTIONS."

OPS = ["gaps", "between", "rev", "append", "stack_off", "stack_loc", "rate", "deepcopy", "full_ln", "empty_holds"]


def apply_op(m, op):
    from reamber.algorithms.generate import full_ln

    if op == "gaps":
        m.hits = m.hits.after(600.0)
    elif op == "between":
        m.holds = m.holds.between(0.0, 3500.0)
    elif op == "rev":
        for k in list(m.objs):
            m.objs[k] = m.objs[k].sorted(reverse=True)
    elif op == "append":
        if len(m.hits):
            m.hits = m.hits.append(m.hits[0])
    elif op == "stack_off":
        s = m.stack()
        s.offset += 5
    elif op == "stack_loc":
        s = m.stack()
        s.loc[s.column == 1, "column"] = 2
    elif op == "rate":
        m = m.rate(1.5)
    elif op == "deepcopy":
        m = m.deepcopy()
    elif op == "full_ln":
        m = full_ln(m, 150, 100)
    elif op == "empty_holds":
        m.holds = type(m.holds)([])
    return m


def subjects(tier):
    out = []
    for g in charts.GAMES:
        for v in starts.variants(g):
            out.append((g, v))
    return out


def histories(tier):
    hs = [()] + [(a,) for a in OPS] + [(a, b) for a in OPS for b in OPS]
    if tier == "thorough":
        # every history of three operations over the whole alphabet
        hs += [(a, b, c) for a in OPS for b in OPS for c in OPS]
    return hs


def bound(tier, seed):
    return dict(subjects=len(subjects(tier)), operations=OPS, histories=len(histories(tier)), depth=2 if tier == "quick" else 3, converters=17, mapset_sources="two charts: the edited chart and an 'empties' chart")


LARGE_HIST = [(), ("rev",), ("gaps",), ("stack_off",), ("rate",), ("full_ln",)]


def roots(tier, seed):
    hs = histories(tier)
    rs = []
    n = 4 if tier == "quick" else 12
    for i in range(len(subjects(tier))):
        for k in range(n):
            rs.append(dict(i=i, k=k, n=n))
    # size: every converter on charts of 300 notes (thorough: 1100), fresh and after one operation
    for g in charts.GAMES:
        rs.append(dict(large=g, v="large"))
        if tier == "thorough":
            rs.append(dict(large=g, v="large1100"))
    return rs


def explore(root, tier, ctx):
    if "large" in root:
        seen = set()
        for h in LARGE_HIST:
            check_state(root["large"], root["v"], h, ctx, seen)
        return
    g, v = subjects(tier)[root["i"]]
    hs = histories(tier)
    seen = set()
    for j in range(root["k"], len(hs), root["n"]):
        check_state(g, v, hs[j], ctx, seen)


def replay(case, ctx):
    check_state(case["game"], case["start"], tuple(case["history"]), ctx, set(), only=case.get("converter"))


# --------------------------------------------------------------------------------------------------- converters
def converters(g):
    from reamber.algorithms import convert as C

    if g == "osu":
        return [("OsuToBMS", C.OsuToBMS.convert, {}, "bms"), ("OsuToBMS+1", C.OsuToBMS.convert, dict(move_right_by=1), "bms"), ("OsuToQua", C.OsuToQua.convert, {}, "qua"), ("OsuToSM", C.OsuToSM.convert, {}, "sm")]
    if g == "qua":
        return [("QuaToBMS", C.QuaToBMS.convert, {}, "bms"), ("QuaToBMS+1", C.QuaToBMS.convert, dict(move_right_by=1), "bms"), ("QuaToOsu", C.QuaToOsu.convert, {}, "osu"), ("QuaToSM", C.QuaToSM.convert, {}, "sm")]
    if g == "bms":
        return [("BMSToOsu", C.BMSToOsu.convert, {}, "osu"), ("BMSToQua", C.BMSToQua.convert, {}, "qua"), ("BMSToSM", C.BMSToSM.convert, {}, "sm")]
    if g == "sm":
        return [("SMToBMS", C.SMToBMS.convert, {}, "bms"), ("SMToOsu", C.SMToOsu.convert, {}, "osu"), ("SMToQua", C.SMToQua.convert, {}, "qua")]
    if g == "o2j":
        return [
            ("O2JToBMS", C.O2JToBMS.convert, {}, "bms"),
            ("O2JToBMS0", C.O2JToBMS.convert, dict(move_right_by=0), "bms"),
            ("O2JToOsu", C.O2JToOsu.convert, {}, "osu"),
            ("O2JToQua", C.O2JToQua.convert, {}, "qua"),
            ("O2JToSM", C.O2JToSM.convert, {}, "sm"),
            ("O2JToSM_merge", C.O2JToSM.convert_merge, {}, "sm"),
        ]
    raise KeyError(g)


def shift_of(name, kw):
    if "move_right_by" in kw:
        return kw["move_right_by"]
    return 1 if name == "O2JToBMS" else 0


def text(v):
    if isinstance(v, bytes):
        return v.decode("shift_jis", "replace")
    return "" if v is None else str(v)


def source_meta(g, src, m, idx):
    """dict(title, artist, creator or None, difficulty candidates)"""
    if g == "osu":
        return dict(title=src.title, artist=src.artist, creator=src.creator, diff=[src.version])
    if g == "qua":
        return dict(title=src.title, artist=src.artist, creator=src.creator, diff=[src.difficulty_name])
    if g == "bms":
        return dict(title=text(src.title), artist=text(src.artist), creator=None, diff=[text(src.version)])
    if g == "sm":
        return dict(title=src.title, artist=src.artist, creator=src.credit, diff=[f"{m.difficulty} {m.difficulty_val}", m.description] if m.description else [f"{m.difficulty} {m.difficulty_val}"])
    if g == "o2j":
        return dict(title=src.title, artist=src.artist, creator=src.creator, diff=[str(src.level[idx])])


def target_meta(tg, container, m):
    if tg == "osu":
        return dict(title=m.title, artist=m.artist, creator=m.creator, diff=[m.version])
    if tg == "qua":
        return dict(title=m.title, artist=m.artist, creator=m.creator, diff=[m.difficulty_name])
    if tg == "bms":
        return dict(title=text(m.title), artist=text(m.artist), creator=None, diff=[text(m.version)])
    if tg == "sm":
        return dict(title=container.title, artist=container.artist, creator=container.credit, diff=[str(m.description), str(m.difficulty), str(m.difficulty_val)])


def rows(l, cols, shift=0):
    out = []
    for r in canon.rows_by_value(l, cols):
        t = []
        for c in cols:
            v = r.get(c, "<absent>")
            if c == "column" and isinstance(v, float):
                v = v + shift
            t.append(round(v, 9) if isinstance(v, float) else v)
        out.append(tuple(t))
    return sorted(out, key=repr)


def target_classes(tg):
    M, I, L = charts.classes(tg)
    return M, L


def build_source(g, v, hist):
    """Returns (source object passed to the converters, list of source charts)."""
    m = starts.make(g, v)
    for op in hist:
        m = apply_op(m, op)
    if g in ("sm", "o2j"):
        other = starts.make(g, "empties")
        if g == "sm":
            other.difficulty, other.difficulty_val = "Easy", 2
            src = charts.make_mapset("sm", [m, other], dict(title="t", artist="ar", credit="cr", offset=0.0, music="a.mp3"))
        else:
            src = charts.make_mapset("o2j", [m, other], dict(title="t", artist="ar", creator="cr", level=[3, 5, 9], bpm=120.0))
        return src, src.maps
    return m, [m]


def check_state(g, v, hist, ctx, seen, only=None):
    case0 = dict(game=g, start=v, history=list(hist))
    try:
        src, smaps = build_source(g, v, hist)
    except Exception as e:
        ctx.extra[f"history_raised:{g}:{hist[-1] if hist else ''}:{type(e).__name__}"] += 1
        return
    ctx.transition(len(hist))
    ctx.depth(len(hist))
    key = canon.canon_mapset(src) if hasattr(src, "maps") else canon.canon_map(src)
    k64 = core.h64(key)
    if k64 in seen and only is None:
        ctx.extra["duplicate_states_skipped"] += 1
        return
    seen.add(k64)
    m0 = smaps[0]
    relabelled = any(list(l.df.index) != list(range(len(l))) for l in m0.objs.values())
    ctx.state(k64, nontrivial=relabelled and len(m0.hits) > 0 and len(m0.holds) > 0 and len(m0.bpms) >= 2)
    if relabelled and len(hist) == 2 and len(ctx.samples) < 1:
        ctx.sample(case0)
    kept = []  # (converter, result, canonical form right after the conversion)
    for name, fn, kw, tg in converters(g):
        if only and name != only:
            continue
        case = dict(case0, converter=name)
        site = dict(converter=name)
        before = canon.canon_mapset(src) if hasattr(src, "maps") else canon.canon_map(src)
        ctx.transition()
        ctx.case()
        try:
            res = fn(src, **kw)
        except ValueError as e:
            # documented refusal (key count unsupported by the target)
            ctx.extra[f"refused:{name}"] += 1
            ctx.check("source.untouched", (canon.canon_mapset(src) if hasattr(src, "maps") else canon.canon_map(src)) == before, site=site, case=case, observed="source changed by a refused conversion", expected="identical snapshot")
            continue
        except Exception as e:
            ctx.check("raises", False, site=dict(site, exc=type(e).__name__), case=case, observed=f"{type(e).__name__}: {e}"[:300], expected="converted chart(s)")
            continue
        ctx.passed("raises")
        ctx.check("source.untouched", (canon.canon_mapset(src) if hasattr(src, "maps") else canon.canon_map(src)) == before, site=site, case=case, observed="source changed", expected="identical snapshot")
        # flatten the result into (container, chart) pairs
        pairs = []
        if isinstance(res, list):
            for x in res:
                if hasattr(x, "maps"):
                    pairs += [(x, y) for y in x.maps]
                else:
                    pairs.append((x, x))
        elif hasattr(res, "maps"):
            pairs = [(res, y) for y in res.maps]
        else:
            pairs = [(res, res)]
        if not ctx.check("cardinality", len(pairs) == len(smaps), site=site, case=case, observed=len(pairs), expected=len(smaps)):
            continue
        M, L = target_classes(tg)
        shift = shift_of(name, kw)
        for idx, ((cont, t), s) in enumerate(zip(pairs, smaps)):
            cs = dict(site, chart=idx) if len(smaps) > 1 else site
            ctx.check("target.class", type(t) is M, site=cs, case=case, observed=type(t).__name__, expected=M.__name__)
            for ln, cols in (("hits", ["offset", "column"]), ("holds", ["offset", "column", "length"]), ("bpms", ["offset", "bpm"])):
                tl = t.objs.get(ln)
                if not ctx.check("target.class", tl is not None and type(tl) is L[ln], site=dict(cs, list=ln), case=case, observed=type(tl).__name__, expected=L[ln].__name__):
                    continue
                exp = rows(s.objs[ln], cols, shift if ln != "bpms" else 0)
                got = rows(tl, cols)
                ctx.check("cast.values", got == exp, site=dict(cs, list=ln), case=case, observed=got, expected=exp)
            if "svs" in s.objs and "svs" in L:
                tl = t.objs.get("svs")
                exp = rows(s.objs["svs"], ["offset", "multiplier"])
                got = rows(tl, ["offset", "multiplier"]) if tl is not None else None
                ctx.check("cast.svs", got == exp, site=cs, case=case, observed=got, expected=exp)
            # only the target's declared fields, no missing values
            for ln, tl in t.objs.items():
                declared = list(type(tl).props().names)
                colsn = list(tl.df.columns)
                ctx.check("fields.only_target", sorted(colsn) == sorted(declared), site=dict(cs, list=ln, extra=sorted(set(colsn) - set(declared)), missing=sorted(set(declared) - set(colsn))), case=case, observed=colsn, expected=declared)
                miss = []
                for r_i, r in enumerate(canon.rows_by_value(tl)):
                    for c, val in r.items():
                        if val is None or val == canon.NAN:
                            miss.append((r_i, c))
                ctx.check("fields.no_missing", not miss, site=dict(cs, list=ln), case=case, observed=miss[:6], expected="no NaN/None cell")
            extra_attrs = sorted(k for k in vars(t) if k not in {f.name for f in dataclasses.fields(t)})
            ctx.check("fields.only_target", not extra_attrs, site=dict(cs, list="<attributes>", extra=extra_attrs, missing=[]), case=case, observed=extra_attrs, expected="no attribute outside the target chart's fields")
            # metadata
            sm_, tm_ = source_meta(g, src, s, idx), target_meta(tg, cont, t)
            for f in ("title", "artist", "creator"):
                if sm_[f] is None or tm_[f] is None:
                    continue
                ctx.check("meta", text(tm_[f]) == text(sm_[f]), site=dict(cs, field=f), case=case, observed=text(tm_[f]), expected=text(sm_[f]))
            okd = any(d and any(d in x for x in tm_["diff"]) for d in sm_["diff"])
            ctx.check("meta", okd, site=dict(cs, field="difficulty"), case=case, observed=tm_["diff"], expected=sm_["diff"])
        ctx.outcome((name, core.h64([canon.canon_map(t) for _, t in pairs])))
        kept.append((name, pairs, [canon.canon_map(t) for _, t in pairs]))
    # a result already handed out must not change when further conversions run (no buffer shared between calls):
    # convert a second, different source of the same shape (same list sizes, other values) with every converter, then look again
    if only is None and len(hist) <= 1:
        try:
            other, _ = build_source(g, v, hist)
            for m_ in (other.maps if hasattr(other, "maps") else [other]):
                for l_ in m_.objs.values():
                    if len(l_):
                        l_.df["offset"] = l_.df["offset"] + 123.0
            for name2, fn2, kw2, tg2 in converters(g):
                ctx.transition()
                try:
                    fn2(other, **kw2)
                except Exception:
                    pass
        except Exception:
            pass
    for name, pairs, before_forms in kept:
        now = [canon.canon_map(t) for _, t in pairs]
        ctx.check("result.stable", now == before_forms, site=dict(converter=name), case=dict(case0, converter=name), observed="an earlier result changed after later conversions ran", expected="results independent of later calls")
