"""C13 — rate change scales time uniformly, composes, and survives a write.

History BFS on real charts and mapsets of the five games: start states (plain / empty lists / label gaps / reversed rows / read
from a file) x optional earlier operation (a stack edit that relabels rows, a previous rate) x rate r in {1/2, 1, 3/2, 2, 4/3};
compositions of two rates; every rated chart of a writable game is written and read back by the library."""
from __future__ import annotations

import dataclasses
import math

from mc import canon, charts, core, fileio, starts

ID = "C13"
LARGE = dict(quick="charts of 300 notes, every rate and pair", thorough="charts of 300 and 1100 notes")
TITLE = "Rate change scales time uniformly, composes, and survives a write"
RULE = (
    "history BFS: a state is a distinct canonical chart/mapset reached by (start state, earlier operation, rate[, second rate]); "
    "a transition is one rate()/write()/read() call; non-trivial = r != 1 on a chart with holds and >=2 tempo points"
)
ASSUMPTIONS = [
    "time fields: column 'offset' of every list, 'length' of hold/roll/stop lists, osu preview_time and sample events, StepMania sample_start/sample_length/offset; 'bpm' is multiplied; everything else is compared unchanged",
    "relative tolerance 1e-12 for scaled values and for composition",
    "file round trip uses the library's own reader; resolution 1 ms for osu/Quaver, 1/96 beat at the slowest tempo (>= 1 ms) for StepMania/BMS",
    "an unset osu preview point (-1) is not exercised: the start states set it",
    "coincidence probe: equal source times must give exactly equal rated times across hits, sample events and the preview point (any uniform scaling is a function of the time), in memory and after osu write+read; rates {1.1, 0.9, 1.5, 4/3} x 56 times x 3 preview points",
]
TECHNIQUE = "explicit-state BFS over short histories ending in rate() on real charts/mapsets of five games, compared with a plain-Python twin; composition and write/read-back oracles"
LEVEL_TEXT = (
    "Charts of osu, Quaver, StepMania, BMS, O2Jam (start states plain / empty lists / label gaps / reversed rows / read from file) and "
    "two-chart StepMania and O2Jam mapsets with non-zero file offset and sample window, optionally preceded by a stack edit or a rate, "
    "rated by every r in {0.5, 1, 1.5, 2, 4/3}: offsets and lengths divided, bpm multiplied, every other column and metadata field "
    "unchanged, original snapshot-identical, r=1 identity, rate(a).rate(b) = rate(ab) for all 25 (thorough) / 8 (quick) pairs, osu "
    "preview point and sample events and StepMania sample window and file offset scaled; each rated chart of osu, Quaver, StepMania, BMS "
    "written and read back: same notes, columns, lengths and tempo-change times. Coincidence probe (osu): a hit, a sample event and the "
    "preview point on one source time stay on one time after rate() and after write+read, for rates {1.1, 0.9, 1.5, 4/3} on 56 times "
    "including quotients one rounding error away from a whole millisecond."
)
LEVEL_NOTE = "Bounded: five rates, charts of <=5 notes and 2 tempo points on a quarter-beat grid; 'all r>0' is not covered."

RATES = [0.5, 1.0, 1.5, 2.0, 4.0 / 3.0]
# thorough: slow-downs, non-dyadic and large rates as well
RATES_T = RATES + [0.25, 2.0 / 3.0, 0.9, 1.1, 3.0, 10.0, 1e-3]
REL = 1e-12
TIME_META = {"OsuMap": ["preview_time"], "SMMapSet": ["sample_start", "sample_length", "offset"]}
PRE = [None, "stack", "rate2", "used"]
SM_SHIFT = 500.0


def subjects(tier):
    out = []
    for g in charts.GAMES:
        for v in starts.variants(g):
            for pre in PRE:
                if tier == "quick" and pre is not None and v not in ("plain", "gaps"):
                    continue
                out.append(("map", g, v, pre))
    for g in ("sm", "o2j"):
        for pre in PRE:
            out.append(("set", g, "plain", pre))
    # a mapset that holds the same chart object twice (a legitimate list): every occurrence is rated once
    out.append(("set", "sm", "shared-map", None))
    out.append(("set", "o2j", "shared-map", None))
    # size: charts of 300 notes (thorough: 1100)
    for g in charts.GAMES:
        out.append(("map", g, "large", None))
        if tier == "thorough":
            out.append(("map", g, "large1100", "stack"))
    # a StepMania mapset built in memory whose file offset was never set (None, the declared default): the sample window still scales
    out.append(("set", "sm", "offset-unset", None))
    out.append(("set", "sm", "offset-unset", "rate2"))
    return out


def pairs(tier):
    if tier == "quick":
        return [(0.5, 2.0), (1.5, 4.0 / 3.0), (2.0, 1.5), (4.0 / 3.0, 4.0 / 3.0), (1.0, 2.0), (2.0, 1.0), (0.5, 0.5), (1.5, 0.5)]
    return [(a, b) for a in RATES_T for b in RATES_T]


def bound(tier, seed):
    return dict(subjects=len(subjects(tier)), rates=RATES if tier == "quick" else RATES_T, composition_pairs=len(pairs(tier)), earlier_operations=["none", "stack().offset += 0 (relabels rows)", "rate(2)", "rate+write once, then edit offsets and bpm in place"], file_roundtrip_games=["osu", "qua", "sm", "bms"])


def roots(tier, seed):
    return [dict(i=i) for i in range(len(subjects(tier)))]


def build(kind, g, v, pre):
    if kind == "map":
        x = starts.make(g, v)
    else:
        x = starts.make_set(g)
        if g == "sm" and v == "offset-unset":
            x.offset = None
        elif g == "sm":
            # a consistent StepMania mapset whose beat 0 is not at 0 ms: shift everything, file offset = first tempo point
            for m in x.maps:
                for l in m.objs.values():
                    l.df["offset"] = l.df["offset"] + SM_SHIFT
            x.offset = SM_SHIFT
        if v == "shared-map":
            x.maps.append(x.maps[0])  # (after the shift above: the shared chart is shifted once)
    if pre == "stack":
        s = x.stack()
        s.offset += 0
    elif pre == "rate2":
        x = x.rate(2.0)
    elif pre == "used":
        # second use of the same objects: rate and write once (anything cached is now warm), then edit the lists in place
        x.rate(2.0)
        try:
            if g in ("osu", "qua", "bms") and kind == "map":
                x.write()
            elif g == "sm" and kind == "set":
                x.write()
        except Exception:
            pass
        s = x.stack()
        s.offset += 250
        s.bpm *= 2
        if g == "sm" and kind == "set":
            x.offset = x.offset + 250
    return x


def explore(root, tier, ctx):
    kind, g, v, pre = subjects(tier)[root["i"]]
    for r in RATES if tier == "quick" else RATES_T:
        check_rate(kind, g, v, pre, r, None, ctx)
    for a, b in pairs(tier):
        check_rate(kind, g, v, pre, a, b, ctx)
    if (kind, g, v, pre) == ("map", "osu", "plain", None):
        for r in COINCIDE_RATES:
            for p in COINCIDE_PREVIEWS:
                check_coincide(r, p, ctx)


# Uniform scaling maps equal times to equal times: a hit, a sample event and the preview point that share a time in the source
# share one in the rated chart and in the file written from it (whatever rounding the scaling uses, it is the same for all of them).
# Times are odd small integers plus values whose quotient by 1.1 / 0.9 lies a rounding error away from a whole millisecond.
COINCIDE_RATES = [1.1, 0.9, 1.5, 4.0 / 3.0]
COINCIDE_PREVIEWS = [7.0, 66.0, 66000.0]
COINCIDE_TIMES = [float(t) for t in range(1, 100, 2)] + [66.0, 198.0, 343.0, 1000.0, 66000.0, 123453.0]


def check_coincide(r, p, ctx):
    from reamber.osu.OsuSample import OsuSample
    from reamber.osu.lists.OsuSampleList import OsuSampleList
    case = dict(probe="coincide", r=r, preview=p)
    site = dict(game="osu", kind="coincide")
    x = charts.make_map("osu", [(t, i % 4, None) for i, t in enumerate(COINCIDE_TIMES)], [(0.0, 120.0)], meta=dict(title="t", artist="ar", creator="cr", version="ver", audio_file_name="a.mp3", preview_time=p))
    x.samples = OsuSampleList([OsuSample(offset=t, sample_file="s.wav", volume=40) for t in COINCIDE_TIMES])
    ctx.transition()
    ctx.case()
    try:
        y = x.rate(r)
        hits, smp, pre = y.hits.offset.tolist(), y.samples.offset.tolist(), float(y.preview_time)
    except Exception as e:
        ctx.check("raises", False, site=dict(site, exc=type(e).__name__), case=case, observed=f"{type(e).__name__}: {e}"[:300], expected="a rated chart")
        return
    ctx.state(("coincide", r, p), nontrivial=True)
    k = COINCIDE_TIMES.index(p)
    bad = [(t, h, s) for t, h, s in zip(COINCIDE_TIMES, hits, smp) if h != s]
    ctx.check("coincide.memory", len(hits) == len(smp) == len(COINCIDE_TIMES) and not bad and pre == hits[k], site=site, case=case, observed=dict(differ=bad[:4], preview=pre, hit_at_preview=hits[k] if len(hits) > k else None), expected="hit, sample event and preview point of one source time share one rated time")
    ctx.transition(2)
    try:
        back = fileio.write_read("osu", y)
        bh, bs, bp = sorted(back.hits.offset.tolist()), sorted(back.samples.offset.tolist()), float(back.preview_time)
    except Exception as e:
        ctx.check("file.roundtrip_raises", False, site=dict(site, exc=type(e).__name__), case=case, observed=f"{type(e).__name__}: {e}"[:300], expected="written and read back")
        return
    bad = [(h, s) for h, s in zip(bh, bs) if h != s]
    ctx.check("coincide.file", len(bh) == len(bs) == len(COINCIDE_TIMES) and not bad and bp in bh, site=site, case=case, observed=dict(differ=bad[:4], preview=bp), expected="after write and read the sample events and the preview point are still at the times of their hits")


def replay(case, ctx):
    if case.get("probe") == "coincide":
        return check_coincide(case["r"], case["preview"], ctx)
    check_rate(case["kind"], case["game"], case["start"], case["pre"], case["r"], case.get("r2"), ctx)


def lists_of(x):
    """[(path, TimedList)] of a map or mapset, including osu's sample-event list."""
    out = []
    maps = x.maps if hasattr(x, "maps") else [x]
    for i, m in enumerate(maps):
        for k, l in m.objs.items():
            out.append((f"{i}.{k}", l))
        if hasattr(m, "samples") and hasattr(m.samples, "df"):
            out.append((f"{i}.samples", m.samples))
    return out


def meta_of(x):
    out = {}
    objs = [("", x)] + ([(f"{i}.", m) for i, m in enumerate(x.maps)] if hasattr(x, "maps") else [])
    for pfx, o in objs:
        for f in dataclasses.fields(o):
            if f.name in ("objs", "maps", "samples"):
                continue
            out[pfx + f.name] = (type(o).__name__, f.name, getattr(o, f.name))
    return out


def close(a, b, rel=REL):
    if isinstance(a, float) and isinstance(b, float):
        if a == b:
            return True
        return abs(a - b) <= rel * max(abs(a), abs(b))
    return a == b


def scaled_rows(l, r):
    rows = []
    for row in canon.rows_by_value(l):
        d = {}
        for c, v in row.items():
            if isinstance(v, float) and c in ("offset", "length"):
                d[c] = v / r
            elif isinstance(v, float) and c == "bpm":
                d[c] = v * r
            else:
                d[c] = v
        rows.append(d)
    return rows


def compare_scaled(ctx, orig, res, r, site, case, clause_prefix=""):
    """res must be orig with time scaled by r (lists in order, rows in order)."""
    lo, lr = lists_of(orig), lists_of(res)
    ctx.check(clause_prefix + "lists.same", [p for p, _ in lo] == [p for p, _ in lr] and all(type(a) is type(b) for (_, a), (_, b) in zip(lo, lr)), site=site, case=case, observed=[(p, type(l).__name__) for p, l in lr], expected=[(p, type(l).__name__) for p, l in lo])
    for (p, a), (_, b) in zip(lo, lr):
        exp = scaled_rows(a, r)
        got = canon.rows_by_value(b)
        name = p.split(".", 1)[1]
        ls = dict(site, list=name)
        if not ctx.check(clause_prefix + "rows.count", len(exp) == len(got), site=ls, case=case, observed=len(got), expected=len(exp)):
            continue
        bad = {}
        for i, (e, g) in enumerate(zip(exp, got)):
            if set(e) != set(g):
                bad.setdefault("columns", []).append((i, sorted(set(e) ^ set(g))))
                continue
            for c in e:
                if not close(e[c], g[c]):
                    kind = "times" if c == "offset" else "lengths" if c == "length" else "bpm" if c == "bpm" else "others"
                    bad.setdefault(kind, []).append((i, c, g[c], e[c]))
        for kind in ("times", "lengths", "bpm", "others", "columns"):
            cl = clause_prefix + {"times": "times", "lengths": "lengths", "bpm": "bpm", "others": "others.same", "columns": "others.same"}[kind]
            if kind in bad:
                ctx.check(cl, False, site=dict(ls, what=kind), case=case, observed=bad[kind][:5], expected="(row, column, got, want)")
            else:
                ctx.passed(cl)
    mo, mr = meta_of(orig), meta_of(res)
    for k, (cn, fn, v) in mo.items():
        if k not in mr:
            ctx.check(clause_prefix + "others.same", False, site=dict(site, field=fn), case=case, observed="field missing", expected=canon.val(v))
            continue
        w = mr[k][2]
        if fn in TIME_META.get(cn, []):
            if v is None:
                continue
            ctx.check(clause_prefix + "extras.scaled", isinstance(w, (int, float)) and close(float(w), float(v) / r), site=dict(site, field=fn), case=case, observed=canon.val(w), expected=float(v) / r)
        else:
            ctx.check(clause_prefix + "others.same", canon.cell(w) == canon.cell(v) or canon.val(w) == canon.val(v), site=dict(site, field=fn), case=case, observed=canon.val(w), expected=canon.val(v))


def canon_x(x):
    return canon.canon_mapset(x) if hasattr(x, "maps") else canon.canon_map(x)


def check_rate(kind, g, v, pre, r, r2, ctx):
    case = dict(kind=kind, game=g, start=v, pre=pre, r=r, r2=r2)
    site = dict(game=g, kind=kind)
    try:
        x = build(kind, g, v, pre)
    except Exception as e:
        ctx.check("setup", False, site=dict(site, pre=pre, exc=type(e).__name__), case=case, observed=f"{type(e).__name__}: {e}"[:300], expected="start state")
        return
    before = canon_x(x)
    ctx.depth(1 + (pre is not None) + (r2 is not None))
    ctx.transition()
    ctx.case()
    try:
        y = x.rate(r)
    except Exception as e:
        ctx.check("raises", False, site=dict(site, exc=type(e).__name__), case=case, observed=f"{type(e).__name__}: {e}"[:300], expected="a rated chart")
        return
    ctx.passed("raises")
    ctx.check("original.untouched", canon_x(x) == before, site=site, case=case, observed="original changed", expected="identical snapshot")
    ctx.check("new.object", y is not x and type(y) is type(x), site=site, case=case, observed=type(y).__name__, expected=type(x).__name__)
    nontriv = r != 1.0 and v != "empties"
    if r2 is None:
        ctx.state(("r", canon_x(y)), nontrivial=nontriv)
        ctx.outcome(core.h64(canon_x(y)))
        if len(ctx.samples) < 1 and nontriv and pre:
            ctx.sample(case)
        compare_scaled(ctx, x, y, r, site, case, "identity." if r == 1.0 else "")
        if g in ("osu", "qua", "sm", "bms"):
            check_file(kind, g, y, site, case, ctx)
        return
    # composition
    ctx.transition(2)
    try:
        z = y.rate(r2)
        w = x.rate(r * r2)
    except Exception as e:
        ctx.check("raises", False, site=dict(site, exc=type(e).__name__), case=case, observed=f"{type(e).__name__}: {e}"[:300], expected="a rated chart")
        return
    ctx.state(("rr", canon_x(z)), nontrivial=True)
    compare_scaled(ctx, w, z, 1.0, site, case, "composition.")


def check_file(kind, g, y, site, case, ctx):
    """write(rated) -> library read -> same notes / tempo-change times within the format's resolution."""
    if g == "sm" and kind == "map":
        ms = charts.make_mapset("sm", [y], dict(offset=float(min(y.bpms.offset.tolist(), default=0.0))))
        maps = [y]
    elif kind == "set":
        ms = y
        maps = y.maps
        if g == "sm" and y.offset is None:
            # the file offset was never set: set it as a user would before writing (beat 0 = first tempo point)
            import copy
            ms = copy.deepcopy(y)
            ms.offset = float(min(maps[0].bpms.offset.tolist(), default=0.0))
            maps = ms.maps
    else:
        ms = y
        maps = [y]
    if g == "o2j":
        return
    if g == "sm" and any(len(m.stops) > 0 for m in maps):
        ctx.extra["file_roundtrip_skipped_chart_with_stops"] += 1  # the reader's handling of notes around stops is outside the property
        return
    ctx.transition(2)
    try:
        back = fileio.write_read(g, ms)
    except Exception as e:
        ctx.check("file.roundtrip_raises", False, site=dict(site, exc=type(e).__name__), case=case, observed=f"{type(e).__name__}: {e}"[:300], expected="written and read back")
        return
    bmaps = back.maps if g == "sm" else [back]
    if not ctx.check("file.charts", len(bmaps) == len(maps), site=site, case=case, observed=len(bmaps), expected=len(maps)):
        return
    for ci, (m, b) in enumerate(zip(maps, bmaps)):
        bp = charts.bpms_of(m)
        # BMS has no global offset: measure 0 of the file is the chart's first tempo point (DESIGN 7.9)
        base = bp[0][0] if (g == "bms" and bp) else 0.0
        slow = min((x[1] for x in bp), default=120.0)
        tol = 1.0 if g in ("osu", "qua") else max(1.0, 60000.0 / slow / 96.0)
        en, gn = [(t - base, c, l) for t, c, l in charts.notes_of(m)], charts.notes_of(b)
        ok = len(en) == len(gn)
        if ok:
            # match greedily by column then time
            key = lambda n: (n[1], n[2] is not None, n[0])
            for a, c in zip(sorted(en, key=key), sorted(gn, key=key)):
                if a[1] != c[1] or (a[2] is None) != (c[2] is None) or abs(a[0] - c[0]) > tol or (a[2] is not None and abs(a[2] - c[2]) > 2 * tol):
                    ok = False
        ctx.check("file.timeline", ok, site=dict(site, what="notes"), case=case, observed=gn, expected=en)
        bt = [t for t, _ in charts.bpms_of(b)]
        miss = [t - base for t, _ in bp if not any(abs(t - base - u) <= tol for u in bt)]
        ctx.check("file.timeline", not miss, site=dict(site, what="tempo"), case=case, observed=bt, expected=[t - base for t, _ in bp])
