"""C03 — StepMania writing produces a file that denotes the in-memory mapset.

Builder-graph search over abstract in-memory mapsets (deviation- and depth-bounded): each is built with the public constructors
(times from exact Fraction integration), written by the real SMMapSet.write, and the text is interpreted by the independent
reference parser refs/sm.py; then read back by the library (header round trip, idempotence). A second route feeds charts that
reached the writer through read / convert / rate."""
from __future__ import annotations

import math
from fractions import Fraction as F

from mc import builder, charts, fileio, starts
from refs import sm as rs

ID = "C03"
TITLE = "StepMania writing produces a file that denotes the in-memory mapset"
RULE = (
    "builder graph: a state is a distinct abstract in-memory mapset (deviation set x object sequence) or a mapset reached by read/convert/"
    "rate; a transition is one SMMapSet.write / reference parse / SMMapSet.read; non-trivial = at least one deviation or appended object"
)
ASSUMPTIONS = [
    "exact (1e-6 ms) when every tempo change is on a measure line counted from the first tempo point and the measure's positions fit jointly in <=384 rows; otherwise 1/96 beat at the slowest tempo of the chart (DESIGN 7.10)",
    "the file offset of a consistent mapset equals the time of its first tempo point",
    "header text fields are plain ASCII without ':' ';' '//' (the format has no escape the writer could use)",
]
TECHNIQUE = "builder-graph search over abstract in-memory StepMania mapsets driven through the real writer; written text interpreted by an independent reference parser; library read-back for header round trip and idempotence"
LEVEL_TEXT = (
    "Every mapset with <=2 (quick) / <=3 (thorough) deviations from a default (one 4-key chart, one tap, one tempo point) over 12 axes "
    "(chart type 3/6/7/8 keys, selectable NO, sample window, title/artist/credit text, first tempo point at 341.5 ms / negative, tempo "
    "lists with changes on measure lines / off a measure line / three points, leading empty measures 1-2, an empty chart, a second chart, "
    "reversed rows, a measure needing >384 rows) combined with object sequences (tap, mine, lift, fake, keysound, hold, roll at p/q beats, "
    "q in {1,2,3,4,6,8,12,16,24,32,48}) up to depth 3/4; plus mapsets reaching the writer through SMMapSet.read, OsuToSM, QuaToSM, BMSToSM "
    "and rate(1.5); clauses: syntax, denoted objects (kind, column, time, length), header fields read back unchanged, read(write) idempotent."
)
LEVEL_NOTE = "Bounded palettes. Stops are not generated (their interaction with notes is marked as a band-aid in the source and not part of the property's exactness clause)."

STAIRS = dict(quick=[(2, 1), (1, 2), (0, 3)], thorough=[(3, 1), (2, 2), (1, 3), (0, 4)])
TOL = 1e-6


def default_doc():
    return dict(
        meta=dict(title="t", artist="a", credit="c", music="m.ogg", selectable=True, sample_start=1000.0, sample_length=10000.0),
        first=F(0),  # ms of the first tempo point (== file offset)
        bpms=[(F(0), F(120))],  # (beat, bpm)
        charts=[dict(type="dance-single", desc="d", diff="Hard", meter=7, notes=[("hit", F(0), 0, None)])],
        reverse=False,
    )


def ax_type(t):
    def f(doc):
        doc["charts"][0]["type"] = t
        k, b, c, l = doc["charts"][0]["notes"][0]
        doc["charts"][0]["notes"][0] = (k, b, rs.KEYS[t] - 1, l)

    return f


def ax_meta(k, v):
    def f(doc):
        doc["meta"][k] = v

    return f


def ax_first(v):
    def f(doc):
        doc["first"] = v

    return f


def ax_bpms(b):
    def f(doc):
        doc["bpms"] = list(b)
        # a note after the last change so that every segment matters
        last = max(x[0] for x in b)
        doc["charts"][0]["notes"].append(("hit", last + F(3, 2), 0, None))

    return f


def ax_lead(k):
    def f(doc):
        doc["charts"][0]["notes"] = [(kd, b + 4 * k, c, l) for kd, b, c, l in doc["charts"][0]["notes"]]
        doc["_lead"] = k

    return f


def ax_empty(doc):
    doc["charts"][0]["notes"] = []


def ax_second(doc):
    doc["charts"].append(dict(type="dance-solo", desc="e", diff="Easy", meter=2, notes=[("hit", F(4), 5, None), ("mine", F(9, 2), 0, None)]))


def ax_reverse(doc):
    doc["reverse"] = True
    doc["charts"][0]["notes"].append(("hit", F(5, 2), 1, None))


def ax_dense(doc):
    doc["charts"][0]["notes"] += [("hit", F(1, 7), 1, None), ("hit", F(3, 64), 2, None)]
    doc["_dense"] = True


AXES = [
    ("type", [(t, ax_type(t)) for t in ("dance-solo", "kb7-single", "dance-double", "dance-threepanel")]),
    ("selectable", [("NO", ax_meta("selectable", False))]),
    ("sample", [("start0", ax_meta("sample_start", 0.0)), ("start1234.5/len500", lambda d: (ax_meta("sample_start", 1234.5)(d), ax_meta("sample_length", 500.0)(d)))]),
    ("title", [("words", ax_meta("title", "two words")), ("empty", ax_meta("title", ""))]),
    ("artist", [("words", ax_meta("artist", "Some Artist feat. X"))]),
    ("credit", [("empty", ax_meta("credit", ""))]),
    ("first", [("341.5", ax_first(F(683, 2))), ("-500", ax_first(F(-500)))]),
    (
        "bpms",
        [
            ("90.5", ax_bpms([(F(0), F(181, 2))])),
            ("measure-line", ax_bpms([(F(0), F(120)), (F(4), F(60))])),
            ("three", ax_bpms([(F(0), F(120)), (F(4), F(60)), (F(12), F(375, 2))])),
            ("off-line", ax_bpms([(F(0), F(120)), (F(2), F(60))])),
            ("third-beat", ax_bpms([(F(0), F(120)), (F(13, 3), F(90))])),
        ],
    ),
    ("lead", [("1", ax_lead(1)), ("2", ax_lead(2))]),
    ("empty_chart", [("on", ax_empty)]),
    ("second_chart", [("on", ax_second)]),
    ("reverse", [("on", ax_reverse)]),
    ("dense", [("on", ax_dense)]),
]


def el(kind, beat, col, length=None):
    def f(doc, slot):
        doc["charts"][0]["notes"].append((kind, beat + 4 * doc.get("_lead", 0), col, length))

    return f


ELEMENTS = [
    ("tap@1/2", el("hit", F(1, 2), 1)),
    ("tap@m1", el("hit", F(4), 2)),
    ("hold", el("hold", F(1), 2, F(9, 2))),
    ("mine@1/3", el("mine", F(1, 3), 1)),
    ("roll", el("roll", F(5, 4), 1, F(3, 8))),
    ("lift@11/12", el("lift", F(23, 12), 0)),
    ("fake@5/48", el("fake", F(5, 48) + 8, 0)),
    ("keysound@1/32", el("keysound", F(4) + F(1, 32), 1)),
    ("chord@0", el("hit", F(0), 1)),
    ("tap@2/5", el("hit", F(2, 5), 1)),
    ("mine@7/11", el("mine", F(4) + F(7, 11), 0)),
    ("hold-then-roll-one-col", lambda doc, slot: (el("hold", F(8), 3, F(1, 2))(doc, slot), el("roll", F(9), 3, F(3, 4))(doc, slot))),
    ("roll-then-hold-one-col", lambda doc, slot: (el("roll", F(12), 0, F(1, 4))(doc, slot), el("hold", F(13), 0, F(2))(doc, slot))),
]


def finalize(doc):
    for c in doc["charts"]:
        keys = rs.KEYS[c["type"]]
        seen, out = set(), []
        for kd, b, col, l in c["notes"]:
            col = min(col, keys - 1)
            out.append((kd, b, col, l))
        c["notes"] = out
        # validity: no two objects at one (beat, column); no object inside a hold/roll of its column
        spans = [(b, b + l, col) for kd, b, col, l in out if l is not None]
        for kd, b, col, l in out:
            if (b, col) in seen:
                doc["_invalid"] = "two objects in one cell"
            seen.add((b, col))
            if l is not None:
                seen.add((b + l, col))
            for s0, s1, sc in spans:
                if sc == col and s0 < b <= s1 and not (l is not None and b == s0):
                    doc["_invalid"] = "object inside a hold"
                if sc == col and l is not None and (s0, s1) != (b, b + l) and b <= s0 <= b + l:
                    doc["_invalid"] = "overlapping holds"


def bound(tier, seed):
    docs = builder.staircase(AXES, ELEMENTS, STAIRS[tier])
    return dict(stairs=[dict(max_deviations=k, max_depth=d) for k, d in STAIRS[tier]], axes={a: [l for l, _ in v] for a, v in AXES}, elements=[l for l, _ in ELEMENTS], documents=len(docs), routes=["constructor", "read", "OsuToSM", "QuaToSM", "BMSToSM", "rate"])


CHUNK = 25
_DOCS = {}


def _docs(tier):
    if tier not in _DOCS:
        _DOCS[tier] = builder.staircase(AXES, ELEMENTS, STAIRS[tier])
    return _DOCS[tier]


GRID_PAIRS = [(7, 3), (5, 3), (7, 5), (11, 3), (9, 7), (12, 5), (13, 2), (16, 7), (48, 7), (32, 3), (24, 5)]


LARGE = dict(quick=[(30, False), (300, True)], thorough=[(30, False), (300, True), (300, False), (999, True)])


def check_large(measures, late_offline, ctx):
    """size: hundreds of measures with 8 objects each (holds, mines, rolls among them), tempo changes on measure lines far into
    the chart and - late_offline - one on a quarter beat past beat 1000 (beats of four digits in #BPMS)."""
    doc = default_doc()
    notes = []
    i = 0
    for m in range(measures):
        for k in range(8):
            b = F(4 * m) + F(k, 2)
            c = (m + k) % 4
            kind = "hold" if i % 13 == 6 else "roll" if i % 29 == 11 else "mine" if i % 17 == 3 else "hit"
            notes.append((kind, b, c, F(1) if kind in ("hold", "roll") else None))
            i += 1
    doc["charts"][0]["notes"] = notes
    bp = [(F(0), F(120))] + [(F(4 * m), F(v)) for m, v in ((100, 90), (200, 180), (260, 60)) if m < measures]
    if late_offline and measures > 280:
        bp.append((F(1101) + F(1, 4), F(150)))
    doc["bpms"] = bp
    case = dict(large=[measures, late_offline])
    ctx.case()
    ctx.state(("sm-large", measures, late_offline), nontrivial=True)
    site = dict(route="constructor", devs=["large"])
    try:
        ms, dens, segs = build_mapset(doc)
    except Exception as e:
        ctx.check("setup", False, site=dict(site, exc=type(e).__name__), case=case, observed=f"{type(e).__name__}: {e}"[:300], expected="mapset built from items")
        return
    on_lines = all((b - doc["bpms"][0][0]) % 4 == 0 for b, _ in doc["bpms"])
    judge(ms, dens, on_lines, float(min(v for _, v in doc["bpms"])), site, case, ctx)


def roots(tier, seed):
    n = len(_docs(tier))
    return [dict(kind="large", args=list(a)) for a in LARGE[tier]] + [dict(kind="docs", start=s, stop=min(n, s + CHUNK)) for s in range(0, n, CHUNK)] + [dict(kind="routes")] + [dict(kind="grid", pair=list(p)) for p in GRID_PAIRS]


def check_grid(a, b, ctx):
    """Every row of a measure: notes at ALL k/a beats (column 0) and ALL j/b beats (column 1) of two measures, so that every row
    index the writer can compute for that subdivision mix is exercised (truncation of a float row index shows up here)."""
    doc = default_doc()
    doc["charts"][0]["notes"] = [("hit", F(k, a), 0, None) for k in range(0, 4 * a)] + [("hit", F(j, b), 1, None) for j in range(0, 4 * b)] + [("mine", 4 + F(k, a), 2, None) for k in range(1, 4 * a, 3)] + [("hit", 4 + F(j, b), 3, None) for j in range(2, 4 * b, 2)]
    case = dict(grid=[a, b])
    ctx.case()
    ctx.state(("sm-grid", a, b), nontrivial=True)
    ms, dens, segs = build_mapset(doc)
    judge(ms, dens, rows_needed(doc) <= 384, 120.0, dict(route="grid", devs=[f"{a}x{b}"]), case, ctx)


def explore(root, tier, ctx):
    if root["kind"] == "large":
        check_large(root["args"][0], root["args"][1], ctx)
        return
    if root["kind"] == "grid":
        check_grid(root["pair"][0], root["pair"][1], ctx)
        return
    if root["kind"] == "routes":
        for r in ROUTES:
            check_route(r, ctx)
        return
    docs = _docs(tier)
    for i in range(root["start"], root["stop"]):
        devs, seq = docs[i]
        check(devs, seq, ctx)


def replay(case, ctx):
    if "grid" in case:
        check_grid(case["grid"][0], case["grid"][1], ctx)
    elif "large" in case:
        check_large(case["large"][0], case["large"][1], ctx)
    elif "route" in case:
        check_route(case["route"], ctx)
    else:
        check(tuple(tuple(x) for x in case["devs"]), tuple(case["seq"]), ctx)


# ------------------------------------------------------------------------------------------------ building the real mapset
def build_mapset(doc):
    from reamber.sm import SMBpm, SMFake, SMHit, SMHold, SMKeySound, SMLift, SMMap, SMMapSet, SMMine, SMRoll
    from reamber.sm.lists import SMBpmList
    from reamber.sm.lists.notes import SMFakeList, SMHitList, SMHoldList, SMKeySoundList, SMLiftList, SMMineList, SMRollList

    T, segs = rs.timeline(str(-doc["first"] / 1000), doc["bpms"])
    item = dict(hit=(SMHit, SMHitList, "hits"), mine=(SMMine, SMMineList, "mines"), lift=(SMLift, SMLiftList, "lifts"), fake=(SMFake, SMFakeList, "fakes"), keysound=(SMKeySound, SMKeySoundList, "keysounds"), hold=(SMHold, SMHoldList, "holds"), roll=(SMRoll, SMRollList, "rolls"))
    maps, dens = [], []
    for c in doc["charts"]:
        m = SMMap()
        m.chart_type, m.description, m.difficulty, m.difficulty_val = c["type"], c["desc"], c["diff"], c["meter"]
        notes = list(c["notes"])
        if doc["reverse"]:
            notes = notes[::-1]
        den = []
        for kind, (I, L, attr) in item.items():
            rows = []
            for kd, b, col, l in notes:
                if kd != kind:
                    continue
                t = T(b)
                if l is None:
                    rows.append(I(float(t), col))
                    den.append((kd, col, t, F(0)))
                else:
                    ln = T(b + l) - t
                    rows.append(I(float(t), col, float(ln)))
                    den.append((kd, col, t, ln))
            setattr(m, attr, L(rows))
        bp = [SMBpm(float(s[1]), float(s[2])) for s in segs]
        m.bpms = SMBpmList(bp[::-1] if doc["reverse"] else bp)
        maps.append(m)
        dens.append(sorted(den))
    ms = SMMapSet()
    ms.maps = maps
    for k, v in doc["meta"].items():
        setattr(ms, k, v)
    ms.offset = float(doc["first"])
    return ms, dens, segs


def lib_objs(m):
    out = []
    for kind, l in (("hit", m.hits), ("mine", m.mines), ("lift", m.lifts), ("fake", m.fakes), ("keysound", m.keysounds)):
        out += [(kind, int(c), float(t), 0.0) for t, c in zip(l.offset.tolist(), l.column.tolist())]
    for kind, l in (("hold", m.holds), ("roll", m.rolls)):
        out += [(kind, int(c), float(t), float(ln)) for t, c, ln in zip(l.offset.tolist(), l.column.tolist(), l.length.tolist())]
    return sorted(out)


def match(got, exp, tol):
    """Multisets of (kind, col, t, len) equal within tol (greedy per (kind, col) after sorting by time)."""
    key = lambda x: (x[0], x[1], x[2])
    g, e = sorted(got, key=key), sorted(exp, key=key)
    if len(g) != len(e):
        return False
    for a, b in zip(g, e):
        if a[0] != b[0] or a[1] != b[1] or abs(a[2] - b[2]) > tol or abs(a[3] - b[3]) > 2 * tol:
            return False
    return True


HEADER_FIELDS = ["title", "subtitle", "artist", "title_translit", "subtitle_translit", "artist_translit", "genre", "credit", "banner", "background", "lyrics_path", "cd_title", "music", "offset", "sample_start", "sample_length", "display_bpm", "selectable", "bg_changes", "fg_changes"]


def judge(ms, dens, exact, slow_bpm, site, case, ctx):
    """ms: real SMMapSet; dens: per chart expected [(kind, col, t, len)] (numbers)."""
    from reamber.sm import SMMapSet

    ctx.transition()
    try:
        text = ms.write()
    except Exception as e:
        ctx.check("write.raises", False, site=dict(site, exc=type(e).__name__), case=case, observed=f"{type(e).__name__}: {e}"[:300], expected="a .sm text")
        return
    ctx.passed("write.raises")
    case = dict(case, written=text[-600:])
    # writing is an observation: the same object written again gives the same text
    ctx.transition()
    try:
        again = ms.write()
        ctx.check("write.repeatable", again == text, site=dict(route=site.get("route")), case=case, observed=again[-600:], expected=text[-600:])
    except Exception as e:
        ctx.check("write.repeatable", False, site=dict(route=site.get("route"), exc=type(e).__name__), case=case, observed=f"{type(e).__name__}: {e}"[:300], expected="the same text")
    if not site.get("devs") or len(site.get("devs")) <= 1:
        fileio.check_file_entry_points(ctx, "sm", None, ms, None, dict(route="file-entry"), case, written=text)
    p = rs.parse(text)
    kinds = sorted({problem_class(s) for s in p["syntax"]})
    ctx.check("syntax", not p["syntax"], site=dict(site, problems=kinds[:3]), case=case, observed=p["syntax"][:5], expected="every tag '#NAME:value;', nothing outside tags, rows of <keys> symbols, rows per measure a multiple of 4")
    tol = TOL if exact else 60000.0 / slow_bpm / 96.0 + TOL
    if ctx.check("charts.count", len(p["charts"]) == len(dens), site=site, case=case, observed=len(p["charts"]), expected=len(dens)):
        for ci, (pc, den) in enumerate(zip(p["charts"], dens)):
            cs = dict(site, chart=ci) if len(dens) > 1 else site
            exp = [(k, c, float(t), float(l)) for k, c, t, l in den]
            ctx.check("denotes.objects", match(pc["objs"], exp, tol), site=dict(cs, exact=exact), case=case, observed=pc["objs"][:8], expected=exp[:8])
            mm = ms.maps[ci]
            meta_exp = dict(type=mm.chart_type, desc=str(mm.description), diff=str(mm.difficulty), meter=str(mm.difficulty_val))
            meta_got = {k: pc["meta"][k] for k in ("type", "desc", "diff", "meter")}
            ctx.check("denotes.chart_header", meta_got == meta_exp, site=cs, case=case, observed=meta_got, expected=meta_exp)
    ctx.outcome(tuple(tuple((k, c, round(t, 4)) for k, c, t, l in pc["objs"]) for pc in p["charts"]))
    # library read-back: header fields unchanged, objects again the same
    ctx.transition()
    try:
        back = SMMapSet.read(text.split("\n"))
    except Exception as e:
        ctx.check("readback.raises", False, site=dict(site, exc=type(e).__name__), case=case, observed=f"{type(e).__name__}: {e}"[:300], expected="the written text is readable")
        return
    ctx.passed("readback.raises")
    for f in HEADER_FIELDS:
        a, b = getattr(ms, f), getattr(back, f)
        same = (abs(float(a) - float(b)) <= 1e-6 + 5e-4) if isinstance(a, float) and isinstance(b, (int, float)) and not isinstance(b, bool) else a == b
        ctx.check("header.roundtrip", same, site=dict(site, field=f), case=case, observed=b, expected=a)
    if ctx.check("readback.charts", len(back.maps) == len(dens), site=site, case=case, observed=len(back.maps), expected=len(dens)):
        for ci, (bm, den) in enumerate(zip(back.maps, dens)):
            cs = dict(site, chart=ci) if len(dens) > 1 else site
            exp = [(k, c, float(t), float(l)) for k, c, t, l in den]
            ctx.check("readback.objects", match(lib_objs(bm), exp, tol), site=dict(cs, exact=exact), case=case, observed=lib_objs(bm)[:8], expected=exp[:8])
    # idempotence: writing what was read back and reading again changes nothing
    ctx.transition(2)
    try:
        back2 = SMMapSet.read(back.write().split("\n"))
        same = len(back2.maps) == len(back.maps) and all(match(lib_objs(x), lib_objs(y), TOL if exact else tol) for x, y in zip(back.maps, back2.maps))
        ctx.check("idempotent", same, site=site, case=case, observed=[lib_objs(x)[:6] for x in back2.maps], expected=[lib_objs(x)[:6] for x in back.maps])
    except Exception as e:
        ctx.check("idempotent", False, site=dict(site, exc=type(e).__name__), case=case, observed=f"{type(e).__name__}: {e}"[:300], expected="second generation readable")


def problem_class(msg):
    for pat, cl in (("symbols, expected", "row_width"), ("text outside a tag", "outside_tag"), ("empty measure", "empty_measure"), ("not a multiple of 4", "rows_not_multiple_of_4"), ("malformed tag", "malformed_tag"), ("duplicate tag", "duplicate_tag"), ("tail without head", "tail_without_head"), ("unclosed", "unclosed_hold"), ("unknown symbol", "unknown_symbol")):
        if pat in msg:
            return cl
    return "other"


def rows_needed(doc):
    """Largest number of rows a measure needs to hold all its positions exactly (the writer caps at 384)."""
    import math

    worst = 4
    for c in doc["charts"]:
        per = {}
        for kd, b, col, l in c["notes"]:
            for bb in ([b] if l is None else [b, b + l]):
                m = int(bb // 4)
                d = (bb % 4).denominator * 4
                per[m] = per.get(m, 4) * d // math.gcd(per.get(m, 4), d)
        worst = max([worst] + list(per.values()))
    return worst


def check(devs, seq, ctx):
    doc = builder.build(default_doc, AXES, ELEMENTS, devs, seq, finalize)
    lab = builder.label(AXES, ELEMENTS, devs, seq)
    if doc.get("_invalid"):
        ctx.extra["skipped_ill_formed_documents"] += 1
        return
    case = dict(devs=[list(d) for d in devs], seq=list(seq), label=lab)
    ctx.case()
    ctx.state(("sm-mem", devs, seq), nontrivial=bool(devs or seq))
    ctx.depth(len(seq))
    if len(ctx.samples) < 1 and len(devs) == 2:
        ctx.sample(lab)
    site = dict(route="constructor", devs=sorted({a.split("=")[0] for a in lab["devs"]}))
    try:
        ms, dens, segs = build_mapset(doc)
    except Exception as e:
        ctx.check("setup", False, site=dict(site, exc=type(e).__name__), case=case, observed=f"{type(e).__name__}: {e}"[:300], expected="mapset built from items")
        return
    on_lines = all((b - doc["bpms"][0][0]) % 4 == 0 for b, _ in doc["bpms"])
    exact = on_lines and rows_needed(doc) <= 384
    slow = float(min(v for _, v in doc["bpms"]))
    judge(ms, dens, exact, slow, site, case, ctx)


# ------------------------------------------------------------------------------------------------ other routes to the writer
ROUTES = ["read", "OsuToSM", "QuaToSM", "BMSToSM", "rate", "read+rate", "write/edit-offsets/write", "write/edit-bpm/write", "write/edit-holds/write"]


def check_route(route, ctx):
    from reamber.algorithms import convert as C
    from reamber.sm import SMMapSet

    case = dict(route=route)
    site = dict(route=route, devs=[])
    ctx.case()
    ctx.state(("sm-route", route), nontrivial=True)
    twin = None
    try:
        if route in ("read", "read+rate"):
            ms = SMMapSet.read(starts.SM_TEXT.split("\n"))
            if route == "read+rate":
                ms = ms.rate(1.5)
        elif route.startswith("write/"):
            # a stale cache would show here: write once, edit the SAME list objects in place, write again;
            # the expectation comes from a twin that gets the same edits but was never written before
            def fresh():
                return charts.make_mapset("sm", [starts.make("sm", "plain"), starts.make("sm", "empties")], dict(title="t", artist="a", credit="c", offset=0.0, music="m.ogg"))

            def edit(x):
                if "offsets" in route:
                    s_ = x.stack()
                    s_.offset += 250
                    x.offset = 250.0
                elif "bpm" in route:
                    for m_ in x.maps:
                        m_.bpms.bpm = m_.bpms.bpm * 2
                else:
                    x.maps[0].holds.offset += 500
                    x.maps[0].holds.length = x.maps[0].holds.length * 2
            ms, twin = fresh(), fresh()
            ms.write()
            edit(ms)
            edit(twin)
        elif route == "rate":
            ms = charts.make_mapset("sm", [starts.make("sm", "plain")], dict(title="t", artist="a", credit="c", offset=0.0, music="m.ogg")).rate(1.5)
        elif route == "OsuToSM":
            ms = C.OsuToSM.convert(starts.make("osu", "plain"))
        elif route == "QuaToSM":
            ms = C.QuaToSM.convert(starts.make("qua", "plain"))
        else:
            ms = C.BMSToSM.convert(starts.make("bms", "plain"))
    except Exception as e:
        ctx.check("setup", False, site=dict(site, exc=type(e).__name__), case=case, observed=f"{type(e).__name__}: {e}"[:300], expected="a mapset")
        return
    src = twin if twin is not None else ms
    dens = [[(k, c, t, l) for k, c, t, l in lib_objs(m)] for m in src.maps]
    slow = min(float(b) for m in src.maps for b in m.bpms.bpm.tolist())
    judge(ms, dens, True, slow, site, case, ctx)
