"""C02 — StepMania reading places every object at the time its beat and tempos imply.

Builder-graph search over abstract .sm documents (deviation- and depth-bounded): every document is rendered by my renderer, read
by the real SMMapSet.read, and compared with the denotation known by construction (exact Fraction integration of beats over #BPMS
from -#OFFSET)."""
from __future__ import annotations

import copy
import math
from fractions import Fraction as F

from mc import builder, canon, fileio
from refs import sm as rs

ID = "C02"
TITLE = "StepMania reading places every object at the time its beat and tempos imply"
RULE = (
    "builder graph: a state is a distinct abstract .sm document (deviation set x element sequence); a transition is one SMMapSet.read "
    "of its rendering; non-trivial = at least one deviation or appended element"
)
ASSUMPTIONS = [
    "tolerance 1e-6 ms + 1e-12 relative between float results and the exact rational denotation",
    "tempo-change beats are multiples of 1/16 beat (exact in decimal text and on the reader's snap grid); bpm values are exact decimals",
    "note rows carry no indentation (as StepMania writes them); chart header fields may be indented",
    "a file 'without #STOPS' is exercised both as '#STOPS:;' and with the tag absent",
]
TECHNIQUE = "builder-graph search over abstract .sm documents (deviation- and depth-bounded) driven through the real reader; denotation known by construction, times by exact Fraction integration"
LEVEL_TEXT = (
    "Every .sm document with <=2 (quick) / <=3 (thorough) deviations from a default chart over 12 feature axes (chart type 3/5/6/7/8 keys, "
    "rows per measure 8..192, #OFFSET, 9 #BPMS layouts incl. mid-measure, two changes in one measure, unsorted and line-split entries, "
    "leading empty measures, note symbol M/L/F/K/hold/roll, comments, blank lines, CRLF, #STOPS absent, second and third chart with "
    "their own headers) combined with element sequences (taps, mines, lifts, holds and rolls across measures and tempo changes, chords) "
    "up to depth 3/4; for each: objects (kind, column, time, length) of every chart, chart count and header fields, every tempo-change "
    "time present in the chart's tempo list."
)
LEVEL_NOTE = "Bounded palettes; stops with a non-zero length are outside the property ('files without #STOPS') and not generated."

STAIRS = dict(quick=[(2, 1), (1, 2), (0, 3)], thorough=[(3, 1), (2, 2), (1, 3), (0, 4)])
TOL = 1e-6


def default_doc():
    return dict(
        header=dict(TITLE="t", ARTIST="a", CREDIT="c", MUSIC="m.ogg", SAMPLESTART="1.000", SAMPLELENGTH="10.000", SELECTABLE="YES"),
        offset="0.000",
        bpms=[("0.000", "120.000")],
        stops="empty",
        charts=[dict(type="dance-single", desc="d", diff="Hard", meter="7", radar="0.1,0.2,0.3,0.4,0.5", measures=[dict(rows=4, cells={(0, 0): "1"})])],
        _first=(0, F(0), 0),  # (measure, position in measure, column) of the default note
        _rows=4,
        _lead=0,
    )


# placement helper: notes are kept abstractly as (measure, pos Fraction in [0,1), col, sym) and laid out in finalize()
def _notes(doc, ci=0):
    return doc["charts"][ci].setdefault("_notes", [(0, F(0), 0, "1")])


def ax_type(t):
    def f(doc):
        doc["charts"][0]["type"] = t
        # use the last column of the layout for the default note
        n = _notes(doc)
        n[0] = (n[0][0], n[0][1], rs.KEYS[t] - 1, n[0][3])

    return f


def ax_rows(r):
    def f(doc):
        doc["_rows"] = r
        n = _notes(doc)
        # put the default note on the last row of the finer grid so that the row count matters
        n[0] = (n[0][0], F(r - 1, r), n[0][2], n[0][3])

    return f


def ax_offset(o):
    def f(doc):
        doc["offset"] = o

    return f


def ax_bpms(entries, sep=","):
    def f(doc):
        doc["bpms"] = list(entries)
        doc["bpms_sep"] = sep
        # make sure at least two measures exist so that later changes are straddled
        doc["_min_measures"] = 3

    return f


def ax_lead(k):
    def f(doc):
        doc["_lead"] = k

    return f


def ax_sym(sym):
    def f(doc):
        n = _notes(doc)
        m, p, c, _ = n[0]
        if sym in ("2", "4"):
            n[0] = (m, p, c, sym)
            n.append((m + 1, F(1, 4), c, "3"))  # tail in the next measure
        else:
            n[0] = (m, p, c, sym)

    return f


def ax_flag(k, v=True):
    def f(doc):
        if k in ("comments", "blank"):
            for c in doc["charts"]:
                c[k] = v
        else:
            doc[k] = v

    return f


def ax_charts(n):
    def f(doc):
        for i in range(1, n):
            t = ["dance-solo", "kb7-single"][i - 1]
            doc["charts"].append(dict(type=t, desc=f"d{i}", diff=["Easy", "Challenge"][i - 1], meter=str(2 + i), radar="1,0,0,0,0", measures=[], _notes=[(i, F(i, 4), i + 1, "1"), (0, F(1, 2), 0, "M")]))

    return f


AXES = [
    ("type", [("dance-solo", ax_type("dance-solo")), ("kb7-single", ax_type("kb7-single")), ("dance-double", ax_type("dance-double")), ("dance-threepanel", ax_type("dance-threepanel")), ("pump-single", ax_type("pump-single"))]),
    ("rows", [(str(r), ax_rows(r)) for r in (8, 12, 16, 20, 24, 28, 32, 48, 64, 96, 128, 192, 384)]),
    ("offset", [("-0.5", ax_offset("-0.500")), ("1.234", ax_offset("1.234")), ("-0.009463", ax_offset("-0.009463")), ("0.118750", ax_offset("0.118750"))]),
    (
        "bpms",
        [
            ("90", ax_bpms([("0.000", "90.000")])),
            ("measure-line", ax_bpms([("0.000", "120.000"), ("4.000", "60.000")])),
            ("mid-measure", ax_bpms([("0.000", "120.000"), ("2.000", "60.000")])),
            ("off-beat", ax_bpms([("0.000", "120.000"), ("1.500", "187.500")])),
            ("two-in-measure", ax_bpms([("0.000", "120.000"), ("1.000", "60.000"), ("2.500", "240.000")])),
            ("sixteenth", ax_bpms([("0.000", "93.750"), ("5.0625", "120.000")])),
            ("unsorted", ax_bpms([("4.000", "60.000"), ("0.000", "120.000")])),
            ("split-lines", ax_bpms([("0.000", "120.000"), ("4.000", "60.000"), ("8.000", "180.000")], ",\n")),
            ("60.001", ax_bpms([("0.000", "60.001"), ("4.000", "133.337")])),
        ],
    ),
    ("lead", [("1", ax_lead(1)), ("2", ax_lead(2))]),
    ("symbol", [(s, ax_sym(s)) for s in ("M", "L", "F", "K", "2", "4")]),
    ("stops", [("absent", ax_flag("stops", "absent"))]),
    ("comments", [("on", ax_flag("comments"))]),
    ("pre_comment", [("on", ax_flag("pre_comment"))]),
    ("blank", [("on", ax_flag("blank"))]),
    ("crlf", [("on", ax_flag("crlf"))]),
    ("eof", [("no-final-semicolon", ax_flag("no_final_semicolon", "newline")), ("no-final-semicolon-no-newline", ax_flag("no_final_semicolon", "bare"))]),
    ("charts", [("2", ax_charts(2)), ("3", ax_charts(3))]),
]


def el(measure, pos, col, sym, tail=None):
    def f(doc, slot):
        n = _notes(doc)
        n.append((measure, pos, col, sym))
        if tail:
            n.append((tail[0], tail[1], col, "3"))

    return f


def el_pair(measure, col, first, second):
    """Two long objects one after the other in ONE column (hold then roll, or roll then hold)."""

    def f(doc, slot):
        n = _notes(doc)
        n += [(measure, F(1, 8), col, first), (measure, F(3, 8), col, "3"), (measure, F(5, 8), col, second), (measure, F(7, 8), col, "3")]

    return f


ELEMENTS = [
    ("tap@half", el(0, F(1, 2), 1, "1")),
    ("tap@m1", el(1, F(0), 2, "1")),
    ("hold-across", el(0, F(1, 4), 2, "2", (1, F(1, 4)))),
    ("mine@3/4", el(0, F(3, 4), 1, "M")),
    ("roll@m1", el(1, F(1, 2), 1, "4", (1, F(3, 4)))),
    ("chord@0", el(0, F(0), 1, "1")),
    ("tap@1/3", el(0, F(1, 3), 1, "1")),
    ("lift@m2", el(2, F(5, 8), 0, "L")),
    ("hold-then-roll", el_pair(0, 3, "2", "4")),
    ("roll-then-hold", el_pair(2, 2, "4", "2")),
]


def finalize(doc):
    """Lays the abstract notes out into measures with a common row count per measure."""
    lead = doc["_lead"]
    for c in doc["charts"]:
        notes = c.pop("_notes", [(0, F(0), 0, "1")]) if "_notes" in c else [(0, F(0), 0, "1")]
        keys = rs.KEYS[c["type"]]
        nm = max(m for m, _, _, _ in notes) + 1 + lead
        nm = max(nm, doc.get("_min_measures", 1))
        measures = []
        for mi in range(nm):
            here = [(p, min(col, keys - 1), s) for m, p, col, s in notes if m + lead == mi]
            R = doc["_rows"] if here else 4
            for p, _, _ in here:
                R = R * p.denominator // math.gcd(R, p.denominator)
            if R % 4:
                R *= 4 // math.gcd(R, 4)
            cells = {}
            for p, col, s in here:
                if (int(p * R), col) in cells:
                    doc["_invalid"] = "two symbols in one cell"
                cells[(int(p * R), col)] = s
            measures.append(dict(rows=R, cells=cells))
        c["measures"] = measures
        # well-formedness per column: heads and tails alternate
        for col in range(keys):
            open_ = False
            for mi, m in enumerate(measures):
                for r in range(m["rows"]):
                    ch = m["cells"].get((r, col))
                    if ch in ("2", "4"):
                        if open_:
                            doc["_invalid"] = "head inside an open hold"
                        open_ = True
                    elif ch == "3":
                        if not open_:
                            doc["_invalid"] = "tail without head"
                        open_ = False
                    elif ch and open_:
                        doc["_invalid"] = "object inside an open hold"
            if open_:
                doc["_invalid"] = "unclosed hold"
    for k in ("_first", "_rows", "_lead", "_min_measures"):
        doc.pop(k, None)


def bound(tier, seed):
    docs = builder.staircase(AXES, ELEMENTS, STAIRS[tier])
    return dict(stairs=[dict(max_deviations=k, max_depth=d) for k, d in STAIRS[tier]], axes={a: [l for l, _ in v] for a, v in AXES}, elements=[l for l, _ in ELEMENTS], documents=len(docs))


CHUNK = 40
_DOCS = {}


def _docs(tier):
    if tier not in _DOCS:
        _DOCS[tier] = builder.staircase(AXES, ELEMENTS, STAIRS[tier])
    return _DOCS[tier]


GRID_ROWS = [4, 8, 12, 16, 20, 24, 28, 32, 36, 40, 44, 48, 52, 64, 96, 128, 192, 384]


LARGE = dict(quick=[30, 300], thorough=[30, 300, 999])


def check_large(M, ctx):
    """size: M measures of 8 or 12 rows with 3-4 symbols each (taps, mines, holds and rolls that end in the next measure),
    tempo changes at beats 400, 800 and 1101.25, two charts of different lengths."""
    doc = default_doc()
    doc["bpms"] = [("0.000", "120.000")] + [(f"{b:.3f}", v) for b, v in ((400, "90.000"), (800, "180.000"), (1101.25, "150.000")) if b < 4 * M - 8]
    doc["offset"] = "-0.250"

    def chart(n_meas, shift):
        meas, open_cols = [], {}
        for m in range(n_meas):
            R = 12 if m % 5 == 2 else 8
            cells = {}
            for c, r0 in list(open_cols.items()):
                cells[(r0 % R, c)] = "3"  # the tail of a long note opened in the previous measure
            open_cols = {}
            for j in range(3 + m % 2):
                r, c = (j * 3 + m + shift) % R, (m + j + shift) % 4
                if (r, c) in cells or any(cc == c for (_, cc), sym in cells.items() if sym == "3" and _ >= r):
                    continue
                if (m * 4 + j) % 13 == 6 and m + 1 < n_meas and c not in open_cols:
                    # nothing else may follow in this column of this measure
                    if any(cc == c and rr > r for (rr, cc) in cells):
                        continue
                    cells[(r, c)] = "2" if m % 2 else "4"
                    open_cols[c] = 1 + j
                elif c not in open_cols:
                    cells[(r, c)] = "M" if (m + j) % 11 == 3 else "1"
            meas.append(dict(rows=R, cells=cells))
        return meas

    c0 = doc["charts"][0]
    c0["measures"] = chart(M, 0)
    doc["charts"].append(dict(type="dance-single", desc="e", diff="Easy", meter="2", radar="0,0,0,0,0", measures=chart(max(2, M // 3), 1)))
    for k in ("_first", "_rows", "_lead"):
        doc.pop(k, None)
    run_doc(doc, dict(devs=[f"large={M}"], elems=[]), dict(large=M), ctx, ("sm-large", M))


def roots(tier, seed):
    n = len(_docs(tier))
    return [dict(large=m) for m in LARGE[tier]] + [dict(start=s, stop=min(n, s + CHUNK)) for s in range(0, n, CHUNK)] + [dict(grid=r) for r in GRID_ROWS]


def check_grid(R, ctx):
    """A symbol on EVERY row of a measure of R rows (columns cycling), a second measure of another row count, tempo change mid-file."""
    doc = default_doc()
    doc["bpms"] = [("0.000", "120.000"), ("4.000", "90.000")]
    doc["offset"] = "-0.250"
    c = doc["charts"][0]
    c["measures"] = [dict(rows=R, cells={(r, r % 4): "1" for r in range(R)}), dict(rows=4, cells={}), dict(rows=R, cells={(r, (r + 1) % 4): ("M" if r % 2 else "1") for r in range(0, R, 3)})]
    for k in ("_first", "_rows", "_lead"):
        doc.pop(k, None)
    run_doc(doc, dict(devs=[f"grid={R}"], elems=[]), dict(grid=R), ctx, ("sm-grid", R))


def explore(root, tier, ctx):
    if "large" in root:
        check_large(root["large"], ctx)
        return
    if "grid" in root:
        check_grid(root["grid"], ctx)
        return
    docs = _docs(tier)
    for i in range(root["start"], root["stop"]):
        devs, seq = docs[i]
        check(devs, seq, ctx, i)


def replay(case, ctx):
    if "grid" in case:
        check_grid(case["grid"], ctx)
    elif "large" in case:
        check_large(case["large"], ctx)
    else:
        check(tuple(tuple(x) for x in case["devs"]), tuple(case["seq"]), ctx, -1)


def lib_objs(m):
    out = []
    for kind, l in (("hit", m.hits), ("mine", m.mines), ("lift", m.lifts), ("fake", m.fakes), ("keysound", m.keysounds)):
        out += [(kind, int(c), float(t), 0.0) for t, c in zip(l.offset.tolist(), l.column.tolist())]
    for kind, l in (("hold", m.holds), ("roll", m.rolls)):
        out += [(kind, int(c), float(t), float(ln)) for t, c, ln in zip(l.offset.tolist(), l.column.tolist(), l.length.tolist())]
    return sorted(out)


def close(a, b):
    return abs(a - b) <= TOL + 1e-12 * abs(b)


def check(devs, seq, ctx, i):
    from reamber.sm import SMMapSet

    doc = builder.build(default_doc, AXES, ELEMENTS, devs, seq, finalize)
    lab = builder.label(AXES, ELEMENTS, devs, seq)
    if doc.get("_invalid"):
        ctx.extra["skipped_ill_formed_documents"] += 1
        return
    ctx.depth(len(seq))
    run_doc(doc, lab, dict(devs=[list(d) for d in devs], seq=list(seq)), ctx, ("sm", devs, seq), nontrivial=bool(devs or seq))


def run_doc(doc, lab, case, ctx, key, nontrivial=True):
    from reamber.sm import SMMapSet

    devs = lab["devs"]
    text = rs.render(doc)
    den = rs.denote(doc)
    case = dict(case, label=lab, text=text)
    ctx.case()
    ctx.state(key, nontrivial=nontrivial)
    if len(ctx.samples) < 1 and len(devs) == 2:
        ctx.sample(dict(label=lab, text=text[-300:]))
    site = dict(devs=sorted({a.split("=")[0] for a in lab["devs"]}))
    ctx.transition()
    try:
        if doc.get("crlf"):
            # CRLF files reach the parser through read_file (text mode translates the line ends); read() takes split lines
            import os
            import tempfile

            fd, path = tempfile.mkstemp(suffix=".sm")
            try:
                with os.fdopen(fd, "wb") as f:
                    f.write(text.encode("utf8"))
                ms = SMMapSet.read_file(path)
            finally:
                os.unlink(path)
        else:
            ms = SMMapSet.read(text.split("\n"))
    except Exception as e:
        ctx.check("raises", False, site=dict(site, exc=type(e).__name__, stops=doc.get("stops")), case=case, observed=f"{type(e).__name__}: {e}"[:300], expected="a mapset")
        return
    ctx.passed("raises")
    if not doc.get("crlf") and len(devs) <= 1:
        # the file entry point: read_file of a file holding this text denotes what read(text) gave
        fileio.check_file_entry_points(ctx, "sm", text, ms, canon.canon_mapset, dict(route="file-entry"), case, check_write=False)
    if not ctx.check("charts.count", len(ms.maps) == len(den["charts"]), site=site, case=case, observed=len(ms.maps), expected=len(den["charts"])):
        return
    for ci, (m, d) in enumerate(zip(ms.maps, den["charts"])):
        cs = dict(site, chart=ci) if len(den["charts"]) > 1 else site
        meta = d["meta"]
        got_meta = dict(type=m.chart_type, desc=m.description, diff=m.difficulty, meter=str(m.difficulty_val), radar=[float(x) for x in m.groove_radar])
        exp_meta = dict(type=meta["type"], desc=meta["desc"], diff=meta["diff"], meter=meta["meter"], radar=[float(x) for x in meta["radar"].split(",")])
        ctx.check("charts.header", got_meta == exp_meta, site=cs, case=case, observed=got_meta, expected=exp_meta)
        got = lib_objs(m)
        exp = sorted((k, c, float(t), float(l)) for k, c, t, l in d["objs"])
        ctx.outcome(tuple((k, c, round(t, 6), round(l, 6)) for k, c, t, l in got))
        same_shape = len(got) == len(exp) and all(a[0] == b[0] and a[1] == b[1] for a, b in zip(sorted(got, key=lambda x: (x[0], x[1], x[2])), sorted(exp, key=lambda x: (x[0], x[1], x[2]))))
        ctx.check("kind_column", same_shape, site=cs, case=case, observed=[(k, c) for k, c, _, _ in got], expected=[(k, c) for k, c, _, _ in exp])
        if same_shape:
            g2 = sorted(got, key=lambda x: (x[0], x[1], x[2]))
            e2 = sorted(exp, key=lambda x: (x[0], x[1], x[2]))
            bad_t = [(a, b) for a, b in zip(g2, e2) if not close(a[2], b[2])]
            bad_l = [(a, b) for a, b in zip(g2, e2) if not close(a[3], b[3])]
            ctx.check("time.note", not bad_t, site=cs, case=case, observed=[a for a, _ in bad_t][:4], expected=[b for _, b in bad_t][:4])
            ctx.check("time.hold_len", not bad_l, site=cs, case=case, observed=[a for a, _ in bad_l][:4], expected=[b for _, b in bad_l][:4])
        bt = [float(x) for x in m.bpms.offset.tolist()]
        miss = [float(t) for t in den["tempo_times"] if not any(close(u, float(t)) for u in bt)]
        ctx.check("tempo.present", not miss, site=cs, case=case, observed=bt, expected=[float(t) for t in den["tempo_times"]])
