"""C17 — full-LN generation keeps every note and fills gaps by the stated rule.

Function enumeration on the real `full_ln`: every multiset of <=3 (quick) / <=4 (thorough, osu) notes over 2 columns x 4 times x
{hit, short hold, long hold}, x gap {0,50,150} x threshold {0,100} x row order {sorted, reversed} x 5 games.
Oracle: the stated rule evaluated per column in plain Python (tie-tolerant: two notes at one time in one column may be processed in
either order)."""
from __future__ import annotations

import collections
import itertools

from mc import canon, charts

ID = "C17"
TITLE = "Full-LN generation keeps every note and fills gaps by the stated rule"
RULE = (
    "function enumeration: a state is a distinct (game, note multiset, row order, gap, threshold); a transition is one full_ln call; "
    "non-trivial = at least two notes share a column"
)
ASSUMPTIONS = [
    "two notes at the same time in the same column may be processed in either order (DESIGN 7.6)",
    "'no generated hold reaches the next note' is read as: its end is not after the next note's start (gap 0 touches it by the rule itself)",
    "StepMania charts contain hits and holds only (DESIGN 7.3)",
]
COLS = (0, 1)
TIMES = (0, 100, 250, 400)
KINDS = (None, 50, 500)
ATOMS = [(c, t, k) for c in COLS for t in TIMES for k in KINDS]
# second palette: holds of length 0 (a hold all the same: "the last note of a column keeps its kind and length")
KINDS0 = (None, 0, 500)
ATOMS0 = [(c, t, k) for c in COLS for t in TIMES for k in KINDS0]
# third palette: fractional times and lengths (ordinary for BMS/StepMania/O2Jam charts), with a fractional gap
TIMESF = (0, 100.5, 250.25, 400.75)
ATOMSF = [(c, t, k) for c in COLS for t in TIMESF for k in (None, 50.5, 500)]
PALETTES = {"std": ATOMS, "zero": ATOMS0, "frac": ATOMSF}
GAPS = (0, 50, 150)
PALETTE_GAPS = {"frac": (0, 50.5, 149.75)}
THRS = (0, 100)
TOL = 1e-9


def plan(tier):
    """[(game, max notes, orders, palette)]"""
    if tier == "quick":
        return [("osu", 3, ("rev",), "std"), ("osu", 2, ("fwd",), "std"), ("bms", 2, ("fwd", "rev"), "std"), ("sm", 2, ("fwd", "rev"), "std"), ("qua", 2, ("rev",), "std"), ("o2j", 2, ("rev",), "std"),
                ("osu", 2, ("fwd", "rev"), "zero"), ("qua", 2, ("fwd",), "zero"), ("bms", 2, ("fwd",), "frac"), ("osu", 2, ("rev",), "frac")]
    return [("osu", 4, ("rev",), "std"), ("osu", 3, ("fwd",), "std"), ("bms", 3, ("fwd", "rev"), "std"), ("sm", 3, ("fwd", "rev"), "std"), ("qua", 3, ("fwd", "rev"), "std"), ("o2j", 3, ("fwd", "rev"), "std"),
            ("osu", 3, ("fwd", "rev"), "zero"), ("qua", 3, ("fwd", "rev"), "zero"), ("sm", 2, ("fwd",), "zero"), ("bms", 2, ("fwd",), "zero"), ("o2j", 2, ("fwd",), "zero"),
            ("bms", 3, ("fwd", "rev"), "frac"), ("osu", 3, ("fwd", "rev"), "frac"), ("sm", 2, ("fwd",), "frac"), ("o2j", 2, ("fwd",), "frac"), ("qua", 2, ("fwd",), "frac")]


def bound(tier, seed):
    return dict(
        plan=[dict(game=g, max_notes=n, row_orders=list(o), palette=p) for g, n, o, p in plan(tier)],
        columns=list(COLS) + ["2 (always empty)"],
        times=list(TIMES),
        kinds=dict(std=["hit", "hold 50", "hold 500"], zero=["hit", "hold 0", "hold 500"], frac=["hit", "hold 50.5", "hold 500"]),
        frac_times=list(TIMESF), frac_gaps=list(PALETTE_GAPS["frac"]),
        gaps=list(GAPS),
        thresholds=list(THRS),
    )


def multisets(n):
    out = []
    for k in range(1, n + 1):
        out.extend(itertools.combinations_with_replacement(range(len(ATOMS)), k))
    return out


CHUNK = 60


# size: columns of hundreds of notes (no ties), the last note of each column a hold / a hit
LARGE = dict(quick=[("osu", 300), ("bms", 40)], thorough=[("osu", 17), ("osu", 300), ("osu", 2000), ("bms", 300), ("sm", 300), ("qua", 300), ("o2j", 300)])


def large_notes(n):
    """Two columns of n notes each, 100 ms (column 0) and 130 ms (column 1) apart, kinds hit / hold 50 / hold 500 in turn;
    column 0 ends with a hold, column 1 with a hit."""
    out = []
    for i in range(n):
        out.append((0, 100 * i, (None, 50, 500)[i % 3] if i < n - 1 else 70))
        out.append((1, 130 * i + 5, (50, None, 500)[i % 3] if i < n - 1 else None))
    return out


def roots(tier, seed):
    rs = [dict(large=i) for i in range(len(LARGE[tier]))]
    for pi, (g, n, orders, pal) in enumerate(plan(tier)):
        tot = len(multisets(n))
        for s in range(0, tot, CHUNK):
            rs.append(dict(plan=pi, start=s, stop=min(tot, s + CHUNK)))
    return rs


_MS = {}


def explore(root, tier, ctx):
    if "large" in root:
        g, n = LARGE[tier][root["large"]]
        for order in ("fwd", "rev"):
            for gap, thr in ((50, 0), (150, 100), (0, 0)):
                check_one(g, large_notes(n), order, gap, thr, ctx)
        return
    g, n, orders, pal = plan(tier)[root["plan"]]
    if n not in _MS:
        _MS[n] = multisets(n)
    for i in range(root["start"], root["stop"]):
        notes = [PALETTES[pal][a] for a in _MS[n][i]]
        for order in orders:
            for gap in PALETTE_GAPS.get(pal, GAPS):
                for thr in THRS:
                    check_one(g, notes, order, gap, thr, ctx)


def replay(case, ctx):
    check_one(case["game"], [tuple(x) for x in case["notes"]], case["order"], case["gap"], case["thr"], ctx)


def expected_sets(notes, gap, thr):
    """All acceptable results (sorted tuples of (col, t, length|None)) under the stated rule, over the admissible processing
    orders of notes that share time and column."""
    bycol = collections.defaultdict(list)
    for n in notes:
        bycol[n[0]].append(n)
    percol = []
    for c, ns in sorted(bycol.items()):
        # the admissible processing orders: by time; notes of one time in any order (permutations inside each tie group only)
        groups = [list(g) for _, g in itertools.groupby(sorted(ns, key=lambda n: n[1]), key=lambda n: n[1])]
        alts = set()
        for parts in itertools.product(*[set(itertools.permutations(g)) for g in groups]):
            perm = [n for part in parts for n in part]
            res = []
            for i, (cc, t, k) in enumerate(perm):
                if i == len(perm) - 1:
                    res.append((cc, float(t), None if k is None else float(k)))
                else:
                    inv = perm[i + 1][1] - t - gap
                    res.append((cc, float(t), float(inv)) if inv >= thr else (cc, float(t), None))
            alts.add(tuple(sorted(res, key=_k)))
        percol.append(alts)
    outs = set()
    for combo in itertools.product(*percol):
        outs.add(tuple(sorted((x for col in combo for x in col), key=_k)))
    return outs


def _k(x):
    return (x[0], x[1], x[2] is not None, x[2] or 0.0)


def build(game, notes, order):
    seq = sorted(notes, key=lambda x: (x[1], x[0], x[2] is not None, x[2] or 0))
    if order == "rev":
        seq = seq[::-1]
    desc = [(float(t), c, None if k is None else float(k)) for c, t, k in seq]
    bpms = [(0.0, 120.0), (300.0, 90.0)]
    svs = [(0.0, 1.0), (200.0, 0.5)] if game in ("osu", "qua") else ()
    return charts.make_map(game, desc, bpms, svs)


def check_one(game, notes, order, gap, thr, ctx):
    from reamber.algorithms.generate import full_ln

    case = dict(game=game, notes=[list(n) for n in notes], order=order, gap=gap, thr=thr)
    shared = len({n[0] for n in notes}) < len(notes)
    new = ctx.state(("c17", game, tuple(notes), order, gap, thr), nontrivial=shared)
    if shared and len(notes) == 3 and len(ctx.samples) < 2:
        ctx.sample(case)
    site = dict(game=game)
    m = build(game, notes, order)
    before = canon.canon_map(m)
    ctx.transition()
    ctx.case()
    try:
        r = full_ln(m, gap, thr)
    except Exception as e:
        ctx.check("raises", False, site=dict(site, exc=type(e).__name__), case=case, observed=f"{type(e).__name__}: {e}"[:300], expected="a full-LN chart")
        return
    ctx.passed("raises")
    ctx.check("input.untouched", canon.canon_map(m) == before, site=site, case=case, observed="input chart changed", expected="identical snapshot")
    try:
        got = tuple(sorted(((int(c), float(t), l) for t, c, l in charts.notes_of(r)), key=_k))
    except Exception as e:
        ctx.check("result.readable", False, site=dict(site, exc=type(e).__name__), case=case, observed=f"{type(e).__name__}: {e}"[:300], expected="hits and holds with numeric fields")
        return
    ctx.outcome(got)
    # one note per input note at the same time and column
    ctx.check("count", len(got) == len(notes), site=site, case=case, observed=len(got), expected=len(notes))
    want_tc = sorted((c, float(t)) for c, t, k in notes)
    ctx.check("same_time_column", sorted((c, t) for c, t, l in got) == want_tc, site=site, case=case, observed=sorted((c, t) for c, t, l in got), expected=want_tc)
    exp = expected_sets(notes, gap, thr)
    ok = any(len(e) == len(got) and all(a[0] == b[0] and a[1] == b[1] and ((a[2] is None) == (b[2] is None)) and (a[2] is None or abs(a[2] - b[2]) <= TOL) for a, b in zip(e, got)) for e in exp)
    ctx.check("rule", ok, site=site, case=case, observed=got, expected=sorted(exp, key=repr)[:3])
    # no hold of the result (other than the last note of a column) ends after the next note of its column starts
    bad = []
    bycol = collections.defaultdict(list)
    for c, t, l in got:
        bycol[c].append((t, l))
    for c, ns in bycol.items():
        starts = sorted({t for t, _ in ns})
        for t, l in ns:
            nxt = [s for s in starts if s > t]
            if l is not None and nxt and t + l > nxt[0] + TOL:
                bad.append((c, t, l, nxt[0]))
    ctx.check("no_overlap", not bad, site=site, case=case, observed=bad, expected="hold end <= next note of the column")
    # tempo and other lists unchanged
    for name, lst in m.objs.items():
        if name in ("hits", "holds"):
            continue
        same = name in r.objs and canon.canon_list(r.objs[name]) == canon.canon_list(lst)
        ctx.check("others.unchanged", same, site=dict(site, list=name), case=case, observed="list differs in result", expected="identical list")
    ctx.check("others.unchanged", set(r.objs) == set(m.objs), site=dict(site, list="<set of lists>"), case=case, observed=sorted(r.objs), expected=sorted(m.objs))
    ctx.check("result.type", type(r) is type(m) and type(r.hits) is type(m.hits) and type(r.holds) is type(m.holds), site=site, case=case, observed=[type(r).__name__, type(r.hits).__name__, type(r.holds).__name__], expected=type(m).__name__)

TECHNIQUE = "exhaustive finite-domain enumeration of full_ln on the real code (all note multisets x options x row orders x 5 games) against the stated rule in plain Python"
LEVEL_TEXT = (
    "Every multiset of <=3 (quick: osu; <=2 other games) / <=4 (thorough: osu; <=3 other games) notes over 2 columns x times {0,100,250,400} "
    "x {hit, hold 50, hold 500}, each with gap in {0,50,150} x threshold in {0,100} x row order {sorted, reversed}, for osu, Quaver, BMS, "
    "O2Jam and StepMania charts that also carry two tempo points (and two SVs where the game has them); clauses: count, same time/column, "
    "the per-column rule (exact, tie-tolerant), no generated hold past the next note, other lists identical, input snapshot identical."
)
LEVEL_NOTE = "Bounded note palette chosen so that gaps of 100/150/250/300/400 meet gap+threshold exactly; SM charts with hits/holds only."
