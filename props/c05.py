"""C05 — BMS writing produces a file that denotes the in-memory chart.

Builder-graph search over abstract in-memory BMS charts (deviation- and depth-bounded; 5 channel layouts; on- and off-grid times),
built with the public constructors, written by the real BMSMap.write, the bytes interpreted by the independent reference
interpreter refs/bms.py (its own channel tables). Plus: find_lcm on every denominator tuple of length <=4; charts reaching the
writer through read and through converters."""
from __future__ import annotations

import itertools
from fractions import Fraction as F

from mc import builder, fileio, starts
from refs import bms as rb

ID = "C05"
TITLE = "BMS writing produces a file that denotes the in-memory chart"
RULE = (
    "builder graph: a state is a distinct abstract in-memory chart (deviation set x object sequence), a denominator tuple for find_lcm, or "
    "a chart reached by read/convert; a transition is one BMSMap.write + reference interpretation (or one find_lcm call); non-trivial = "
    "at least one deviation or appended object"
)
ASSUMPTIONS = [
    "the first tempo point is at 0 ms (BMS has no global offset, DESIGN 7.9); tempo changes lie on measure lines; bpm values have <=3 decimals (the writer prints .3f)",
    "no object lies strictly inside a hold of its own lane, no two objects share a lane and time (not denotable with #LNOBJ, DESIGN 7.12)",
    "exact = 1e-6 ms for positions on the snap grid (denominator <=96 per beat); otherwise 1/192 beat at the local tempo",
    "tempo timelines are compared as step functions without zero-length segments (DESIGN 7.13)",
]
TECHNIQUE = "builder-graph search over abstract in-memory BMS charts driven through the real writer; written bytes interpreted by an independent reference interpreter; complete enumeration of find_lcm on denominator tuples"
LEVEL_TEXT = (
    "find_lcm on all tuples of length <=4 over the 16 denominators the writer can produce; every (layout, lane) of the five layouts; every "
    "BME chart with <=2 (quick) / <=3 (thorough) deviations over 7 axes (other layouts, 3 tempo lists incl. 133.337/90.5/187.5 bpm changing "
    "on measure lines, 9 positions p/q incl. 1/3, 5/7, 95/96 and 14+1/96 beats, off-grid +0.37 ms, known/unknown/integer-default sample, "
    "reversed rows, LN end id) combined with object sequences (hits on other lanes and later, holds, a hold across a tempo change, chords) "
    "up to depth 3/4; charts from BMSMap.read, OsuToBMS, QuaToBMS, SMToBMS; clauses: every line syntactically valid, object count (none "
    "merged or dropped), lane, time (exact on grid / 1/192 beat off grid), hold length, tempo timeline, sample id of known samples."
)
LEVEL_NOTE = "Bounded palettes; the 1 295-tempo-point limit is probed only in the thorough tier (1 294 and 1 295 points)."

STAIRS = dict(quick=[(2, 2), (1, 2), (0, 3)], thorough=[(3, 1), (2, 3), (1, 3), (0, 4)])
TOL = 1e-6
DENS = [4, 8, 12, 16, 20, 24, 28, 32, 36, 48, 64, 96, 128, 192, 384, 68]
NLANES = {k: len(v) for k, v in rb.LAYOUTS.items()}


def default_doc():
    return dict(layout="BME", bpms=[(F(0), "120")], notes=[("hit", F(0), 1, None, "a")], off=F(0), reverse=False, lnobj=b"ZZ", samples={b"0A": b"a.wav", b"0B": b"b.wav"})


def ax_layout(n):
    def f(doc):
        doc["layout"] = n
        k, b, lane, l, s = doc["notes"][0]
        doc["notes"][0] = (k, b, NLANES[n] - 1, l, s)

    return f


def ax_bpms(b):
    def f(doc):
        doc["bpms"] = list(b)
        last = max(x[0] for x in b)
        doc["notes"].append(("hit", last + F(5, 2), 0, None, "b"))

    return f


def ax_pos(p):
    def f(doc):
        k, _, lane, l, s = doc["notes"][0]
        doc["notes"][0] = (k, p, lane, l, s)

    return f


def ax_off(doc):
    doc["off"] = F(37, 100)


def ax_sample(kind):
    def f(doc):
        k, b, lane, l, _ = doc["notes"][0]
        doc["notes"][0] = (k, b, lane, l, kind)

    return f


def ax_reverse(doc):
    doc["reverse"] = True
    doc["notes"].append(("hit", F(7, 2), 2, None, "b"))


def ax_lnobj(doc):
    doc["lnobj"] = b"0Z"
    doc["notes"].append(("hold", F(2), 3, F(1), "a"))


AXES = [
    ("layout", [(n, ax_layout(n)) for n in ("BMS", "PMS", "PMS_BME", "PMS_5B")]),
    ("bpms", [("90.5", ax_bpms([(F(0), "90.5")])), ("two", ax_bpms([(F(0), "120"), (F(8), "240")])), ("three", ax_bpms([(F(0), "133.337"), (F(4), "90.5"), (F(12), "187.5")]))]),
    ("pos", [(str(p), ax_pos(p)) for p in (F(1, 2), F(1, 3), F(5, 7), F(3, 16), F(95, 96), F(4), F(13, 2), F(28, 3), F(14) + F(1, 96))]),
    ("offgrid", [("+0.37ms", ax_off)]),
    ("sample", [("unknown", ax_sample("unknown")), ("int0", ax_sample("int0")), ("empty", ax_sample("empty"))]),
    ("reverse", [("on", ax_reverse)]),
    ("lnobj", [("0Z", ax_lnobj)]),
]


def el(kind, beat, lane, length=None, s="b"):
    def f(doc, slot):
        doc["notes"].append((kind, beat, min(lane, NLANES[doc["layout"]] - 1), length, s))

    return f


ELEMENTS = [
    ("hit-other-lane", el("hit", F(3, 2), 3)),
    ("hit-later", el("hit", F(17, 4), 1)),
    ("hold", el("hold", F(1), 2, F(3, 4), "a")),
    ("hold-across-change", el("hold", F(7), 0, F(5, 2))),
    ("chord", el("hit", F(0), 4)),
    ("hit@11/12", el("hit", F(4) + F(11, 12), 2)),
    ("hold-short@1/96", el("hold", F(9) + F(1, 96), 3, F(1, 48))),
    ("hit@17/7-lane1", el("hit", F(17, 7), 1)),
    ("hit@15/11-lane2", el("hit", F(15, 11), 2)),
    ("hit@30/11+1/3-lane3", lambda doc, slot: (el("hit", F(30, 11), 3)(doc, slot), el("hit", F(1, 3), 3)(doc, slot))),
]


def finalize(doc):
    n = NLANES[doc["layout"]]
    doc["notes"] = [(k, b, min(lane, n - 1), l, s) for k, b, lane, l, s in doc["notes"]]
    cells = set()
    spans = [(b, b + l, lane) for k, b, lane, l, s in doc["notes"] if l is not None]
    for k, b, lane, l, s in doc["notes"]:
        ends = [(b, lane)] + ([(b + l, lane)] if l is not None else [])
        for e in ends:
            if e in cells:
                doc["_invalid"] = "two objects in one lane at one time"
            cells.add(e)
        for s0, s1, sl in spans:
            if sl == lane and (s0, s1) != (b, b + (l or 0)) and s0 <= b <= s1:
                doc["_invalid"] = "object inside a hold of its lane"
            if sl == lane and l is not None and (s0, s1) != (b, b + l) and b <= s0 <= b + l:
                doc["_invalid"] = "overlapping holds"


def bound(tier, seed):
    docs = builder.staircase(AXES, ELEMENTS, STAIRS[tier])
    return dict(stairs=[dict(max_deviations=k, max_depth=d) for k, d in STAIRS[tier]], axes={a: [l for l, _ in v] for a, v in AXES}, elements=[l for l, _ in ELEMENTS], documents=len(docs), find_lcm_tuples=sum(len(DENS) ** k for k in range(1, 5)), lane_probes=sum(NLANES.values()))


CHUNK = 25
_DOCS = {}


def _docs(tier):
    if tier not in _DOCS:
        _DOCS[tier] = builder.staircase(AXES, ELEMENTS, STAIRS[tier])
    return _DOCS[tier]


GRID_PAIRS = [(7, 3), (5, 3), (7, 5), (11, 3), (9, 7), (12, 5), (13, 2), (16, 7), (48, 7), (32, 3), (24, 5), (96, 1)]


def check_grid(a, b, ctx):
    """Objects on EVERY k/a beat (lane 1) and every j/b beat (lane 2) of a measure, and a mix of both grids in ONE lane of the next
    measure, so that every slot index the writer can compute for that subdivision mix is exercised."""
    doc = default_doc()
    doc["notes"] = [("hit", F(k, a), 1, None, "a") for k in range(0, 4 * a)] + [("hit", F(j, b), 2, None, "b") for j in range(0, 4 * b)]
    mixed = sorted({4 + F(k, a) for k in range(1, 4 * a, 2)} | {4 + F(j, b) for j in range(0, 4 * b, 3)})
    doc["notes"] += [("hit", p, 3, None, "a") for p in mixed]
    check_doc(doc, dict(devs=[f"grid={a}x{b}"], elems=[]), dict(grid=[a, b]), ctx, key=("grid", a, b))


def check_many_tempos(ctx):
    """40 tempo points: ids beyond Z (two-digit base-36 ids 10, 11, ...)."""
    doc = default_doc()
    doc["bpms"] = [(F(4 * i), str(100 + i)) for i in range(40)]
    doc["notes"] = [("hit", F(4 * i) + F(1, 2), i % 8, None, "a") for i in range(0, 40, 3)] + [("hold", F(150), 2, F(9), "b")]
    check_doc(doc, dict(devs=["tempo_points=40"], elems=[]), dict(many_tempos=40), ctx, key=("many", 40))


B36 = "0123456789ABCDEFGHIJKLMNOPQRSTUVWXYZ"
LARGE = dict(quick=[(100, 600, 60), (20, 3000, 300)], thorough=[(100, 600, 60), (20, 3000, 300), (700, 6000, 1000)])


def check_large(n_tempo, n_notes, n_samples, ctx):
    """size: many tempo points (ids beyond two digits' first), thousands of objects over hundreds of measures, hundreds of samples"""
    doc = default_doc()
    doc["bpms"] = [(F(4 * i), str(100 + (i * 7) % 150)) for i in range(n_tempo)]
    ids = [a + b for a in B36 for b in B36 if a + b not in ("00", "ZZ")][:n_samples]
    doc["samples"] = {i.encode(): f"s{k}.wav".encode() for k, i in enumerate(ids)}
    notes = []
    for i in range(n_notes):
        b = F(i, 4)
        if i % 9 == 4:
            notes.append(("hold", b, i % 8, F(1, 2), f"s{i % n_samples}"))
        else:
            notes.append(("hit", b, i % 8, None, f"s{(i * 3) % n_samples}"))
    doc["notes"] = notes
    check_doc(doc, dict(devs=[f"large={n_tempo}/{n_notes}/{n_samples}"], elems=[]), dict(large=[n_tempo, n_notes, n_samples]), ctx, key=("large", n_tempo, n_notes, n_samples))


def roots(tier, seed):
    n = len(_docs(tier))
    rs = [dict(kind="large", args=list(a)) for a in LARGE[tier]]
    rs += [dict(kind="lcm", first=d) for d in DENS] + [dict(kind="lanes"), dict(kind="routes"), dict(kind="many")] + [dict(kind="grid", pair=list(p)) for p in GRID_PAIRS]
    if tier == "thorough":
        rs.append(dict(kind="limit"))
    return rs + [dict(kind="docs", start=s, stop=min(n, s + CHUNK)) for s in range(0, n, CHUNK)]


def explore(root, tier, ctx):
    k = root["kind"]
    if k == "large":
        check_large(*root["args"], ctx)
    elif k == "lcm":
        check_lcm(root["first"], ctx)
    elif k == "lanes":
        for name, n in NLANES.items():
            for lane in range(n):
                doc = default_doc()
                doc["layout"] = name
                doc["notes"] = [("hit", F(5, 4), lane, None, "a"), ("hold", F(8), lane, F(3, 2), "b")]
                check_doc(doc, dict(devs=[f"layout={name}", f"lane={lane}"], elems=[]), dict(lane_probe=[name, lane]), ctx)
    elif k == "routes":
        for r in ROUTES:
            check_route(r, ctx)
    elif k == "limit":
        check_limit(ctx)
    elif k == "grid":
        check_grid(root["pair"][0], root["pair"][1], ctx)
    elif k == "many":
        check_many_tempos(ctx)
    else:
        docs = _docs(tier)
        for i in range(root["start"], root["stop"]):
            devs, seq = docs[i]
            check(devs, seq, ctx)


def replay(case, ctx):
    if "lcm" in case:
        check_lcm(case["lcm"][0], ctx, only=tuple(case["lcm"]))
    elif "lane_probe" in case:
        name, lane = case["lane_probe"]
        doc = default_doc()
        doc["layout"] = name
        doc["notes"] = [("hit", F(5, 4), lane, None, "a"), ("hold", F(8), lane, F(3, 2), "b")]
        check_doc(doc, dict(devs=[f"layout={name}", f"lane={lane}"], elems=[]), dict(lane_probe=[name, lane]), ctx)
    elif "route" in case:
        check_route(case["route"], ctx)
    elif "limit" in case:
        check_limit(ctx)
    elif "grid" in case:
        check_grid(case["grid"][0], case["grid"][1], ctx)
    elif "many_tempos" in case:
        check_many_tempos(ctx)
    elif "large" in case:
        check_large(*case["large"], ctx)
    else:
        check(tuple(tuple(x) for x in case["devs"]), tuple(case["seq"]), ctx)


def check_lcm(first, ctx, only=None):
    from reamber.algorithms.timing.utils.find_lcm import find_lcm

    for L in (1, 2, 3, 4):
        for rest in itertools.product(DENS, repeat=L - 1):
            c = (first,) + rest
            if only and c != only:
                continue
            ctx.state(("lcm", c), nontrivial=len(set(c)) > 1)
            ctx.transition()
            try:
                out = find_lcm(list(c), 100)
                ok = len(out) == len(c) and all(o is not None and int(o) % a == 0 for a, o in zip(c, out))
            except Exception as e:
                out, ok = f"{type(e).__name__}: {e}", False
            ctx.check("find_lcm.multiple", ok, site=dict(part="find_lcm"), case=dict(lcm=list(c)), observed=[int(x) if hasattr(x, "__int__") and x is not None else x for x in out] if isinstance(out, list) else out, expected="every output a multiple of its input")


def check(devs, seq, ctx):
    doc = builder.build(default_doc, AXES, ELEMENTS, devs, seq, finalize)
    lab = builder.label(AXES, ELEMENTS, devs, seq)
    if doc.get("_invalid"):
        ctx.extra["skipped_ill_formed_documents"] += 1
        return
    ctx.depth(len(seq))
    check_doc(doc, lab, dict(devs=[list(d) for d in devs], seq=list(seq)), ctx, nontrivial=bool(devs or seq), key=(devs, seq))


def timeline(bpms):
    segs = []
    for i, (b, v) in enumerate(bpms):
        if i == 0:
            segs.append((b, F(0), F(v)))
        else:
            p0, t0, v0 = segs[-1]
            segs.append((b, t0 + (b - p0) * F(60000) / v0, F(v)))

    def T(beat):
        s = [x for x in segs if x[0] <= beat][-1]
        return s[1] + (beat - s[0]) * F(60000) / s[2]

    def bpm_at(t):
        return [x for x in segs if x[1] <= t][-1][2]

    return T, segs, bpm_at


def build_chart(doc):
    from reamber.bms import BMSBpm, BMSHit, BMSHold, BMSMap
    from reamber.bms.lists import BMSBpmList
    from reamber.bms.lists.notes import BMSHitList, BMSHoldList

    T, segs, bpm_at = timeline(doc["bpms"])
    samp = dict(a=b"a.wav", b=b"b.wav", unknown=b"zz.wav", empty=b"", int0=0)
    notes = doc["notes"][::-1] if doc["reverse"] else doc["notes"]
    hits, holds, den = [], [], []
    for k, b, lane, l, s in notes:
        t = T(b) + doc["off"]
        sb = samp[s] if s in samp else s.encode() + b".wav"
        if l is None:
            hits.append(BMSHit(float(t), lane, sb))
            den.append(("hit", lane, t, F(0), sb))
        else:
            ln = T(b + l) - T(b)
            holds.append(BMSHold(float(t), lane, float(ln), sb))
            den.append(("hold", lane, t, ln, sb))
    m = BMSMap()
    m.hits = BMSHitList(hits)
    m.holds = BMSHoldList(holds)
    bp = [BMSBpm(float(s[1]), float(s[2])) for s in segs]
    m.bpms = BMSBpmList(bp[::-1] if doc["reverse"] else bp)
    m.samples = dict(doc["samples"])
    m.ln_end_channel = doc["lnobj"]
    m.title, m.artist, m.version = b"t", b"a", b"7"
    return m, den, segs, bpm_at


def judge(m, layout, den, tempo, ongrid, bpm_at, site, case, ctx):
    """den: [(kind, lane, t, len, sample bytes|int)] numbers or Fractions; tempo: [(t, bpm)]."""
    ctx.transition()
    try:
        data = m.write(rb.lib_layout(layout))
    except Exception as e:
        ctx.check("write.raises", False, site=dict(site, exc=type(e).__name__), case=case, observed=f"{type(e).__name__}: {e}"[:300], expected="BMS bytes")
        return
    ctx.passed("write.raises")
    # writing is an observation: the same object written again gives the same bytes
    ctx.transition()
    try:
        again = m.write(rb.lib_layout(layout))
        ctx.check("write.repeatable", again == data, site=dict(route=site.get("route")), case=case, observed=again[-300:].decode("latin1"), expected=data[-300:].decode("latin1"))
    except Exception as e:
        ctx.check("write.repeatable", False, site=dict(route=site.get("route"), exc=type(e).__name__), case=case, observed=f"{type(e).__name__}: {e}"[:300], expected="the same bytes")
    if not site.get("devs") or len(site.get("devs")) <= 1 or "layout" in site.get("devs"):
        fileio.check_file_entry_points(ctx, "bms", None, m, None, dict(route="file-entry", layout=layout), case, written=data, write_kw=dict(note_channel_config=rb.lib_layout(layout)))
    try:
        text = data.decode("shift_jis")
    except Exception as e:
        ctx.check("syntax", False, site=dict(site, problems=["undecodable"]), case=case, observed=str(e)[:200], expected="shift_jis text")
        return
    case = dict(case, written=text[-500:])
    p = rb.parse(text, layout)
    ctx.check("syntax", not p["syntax"], site=dict(site, problems=sorted({s.split(":")[0][:30] if not s.startswith("line") else s.split(": ", 1)[1][:40] for s in p["syntax"]})[:3]), case=case, observed=p["syntax"][:5], expected="header lines '#KEY value', data lines '#mmmcc:' + an even run of base-36 digits")
    nh = sum(1 for d in den if d[0] == "hit")
    nl = sum(1 for d in den if d[0] == "hold")
    ctx.check("objects.count", p["n_objects"] == nh + 2 * nl and len(p["hits"]) == nh and len(p["holds"]) == nl, site=site, case=case, observed=dict(objects_in_file=p["n_objects"], hits=len(p["hits"]), holds=len(p["holds"])), expected=dict(objects_in_file=nh + 2 * nl, hits=nh, holds=nl))
    ctx.outcome((tuple((c, round(t, 4)) for c, t, _ in p["hits"]), tuple((c, round(t, 4), round(l, 4)) for c, t, l, _ in p["holds"])))
    if len(p["hits"]) == nh and len(p["holds"]) == nl:
        def tol_at(t):
            return TOL + 1e-9 * abs(float(t)) if ongrid else 60000.0 / float(bpm_at(t)) / 192.0 + TOL

        eh = sorted(((lane, float(t), s) for k, lane, t, l, s in den if k == "hit"), key=lambda x: (x[0], x[1]))
        gh = sorted(p["hits"], key=lambda x: (x[0], x[1]))
        ctx.check("objects.lane", [x[0] for x in gh] == [x[0] for x in eh], site=dict(site, layout=layout), case=case, observed=[x[0] for x in gh], expected=[x[0] for x in eh])
        if [x[0] for x in gh] == [x[0] for x in eh]:
            bad = [(a, b) for a, b in zip(gh, eh) if abs(a[1] - b[1]) > tol_at(b[1])]
            ctx.check("objects.time", not bad, site=dict(site, ongrid=ongrid, kind="hit"), case=case, observed=[a[:2] for a, _ in bad][:4], expected=[b[:2] for _, b in bad][:4])
            bads = [(a, b) for a, b in zip(gh, eh) if isinstance(b[2], bytes) and b[2] in m.samples.values() and (a[2] or "").encode("shift_jis") != b[2]]
            ctx.check("sample.id", not bads, site=site, case=case, observed=[a for a, _ in bads][:4], expected=[(b[0], b[1], b[2].decode()) for _, b in bads][:4])
        el_ = sorted(((lane, float(t), float(l), s) for k, lane, t, l, s in den if k == "hold"), key=lambda x: (x[0], x[1]))
        gl = sorted(p["holds"], key=lambda x: (x[0], x[1]))
        ctx.check("objects.lane", [x[0] for x in gl] == [x[0] for x in el_], site=dict(site, layout=layout), case=case, observed=[x[0] for x in gl], expected=[x[0] for x in el_])
        if [x[0] for x in gl] == [x[0] for x in el_]:
            bad = [(a, b) for a, b in zip(gl, el_) if abs(a[1] - b[1]) > tol_at(b[1]) or abs(a[2] - b[2]) > tol_at(b[1]) + tol_at(b[1] + b[2])]
            ctx.check("objects.time", not bad, site=dict(site, ongrid=ongrid, kind="hold"), case=case, observed=[a[:3] for a, _ in bad][:4], expected=[b[:3] for _, b in bad][:4])
    gt = rb.step(p["tempo"])
    et = rb.step([(float(t), float(b)) for t, b in tempo])
    okt = len(gt) == len(et) and all(abs(a[0] - b[0]) <= TOL + 1e-9 * abs(b[0]) and abs(a[1] - b[1]) <= 5e-4 for a, b in zip(gt, et))
    ctx.check("tempo.timeline", okt, site=site, case=case, observed=gt, expected=et)


def check_doc(doc, lab, case, ctx, nontrivial=True, key=None):
    case = dict(case, label=lab)
    ctx.case()
    ctx.state(("bmsw", key if key is not None else repr(case.get("lane_probe"))), nontrivial=nontrivial)
    if len(ctx.samples) < 1 and len(lab["devs"]) == 2:
        ctx.sample(lab)
    site = dict(route="constructor", devs=sorted({a.split("=")[0] for a in lab["devs"]}))
    try:
        m, den, segs, bpm_at = build_chart(doc)
    except Exception as e:
        ctx.check("setup", False, site=dict(site, exc=type(e).__name__), case=case, observed=f"{type(e).__name__}: {e}"[:300], expected="chart built from items")
        return
    ongrid = doc["off"] == 0 and all((b % 1).denominator <= 96 and ((b + l) % 1).denominator <= 96 if l is not None else (b % 1).denominator <= 96 for k, b, lane, l, s in doc["notes"])
    judge(m, doc["layout"], den, [(s[1], s[2]) for s in segs], ongrid, bpm_at, site, case, ctx)


ROUTES = ["read", "OsuToBMS", "QuaToBMS", "SMToBMS", "write/edit-holds/write", "write/edit-bpm/write"]


def check_route(route, ctx):
    from reamber.algorithms import convert as C
    from reamber.bms import BMSMap
    from mc import charts

    case = dict(route=route)
    site = dict(route=route, devs=[])
    ctx.case()
    ctx.state(("bmsw-route", route), nontrivial=True)
    twin = None
    try:
        if route.startswith("write/"):
            # a stale cache would show here: write once, edit the SAME list objects in place, write again;
            # the expectation comes from a twin that gets the same edits but was never written before
            def edit(x):
                if "holds" in route:
                    x.hits.offset += 2000
                    x.holds.offset += 2000
                    x.holds.length = x.holds.length * 2
                else:
                    x.bpms.bpm = x.bpms.bpm * 2
            m, twin = starts.make("bms", "plain"), starts.make("bms", "plain")
            m.samples = {b"0A": b"a.wav"}
            m.write()
            edit(m)
            edit(twin)
        elif route == "read":
            m = BMSMap.read(starts.BMS_TEXT.split("\n"))
        elif route == "OsuToBMS":
            m = C.OsuToBMS.convert(starts.make("osu", "plain"), move_right_by=1)
        elif route == "QuaToBMS":
            m = C.QuaToBMS.convert(starts.make("qua", "plain"), move_right_by=1)
        else:
            m = C.SMToBMS.convert(charts.make_mapset("sm", [starts.make("sm", "plain")], dict(title="t", artist="a", offset=0.0)))[0]
    except Exception as e:
        ctx.check("setup", False, site=dict(site, exc=type(e).__name__), case=case, observed=f"{type(e).__name__}: {e}"[:300], expected="a chart")
        return
    x = twin if twin is not None else m
    den = [("hit", int(c), float(t), 0.0, s) for t, c, s in zip(x.hits.offset.tolist(), x.hits.column.tolist(), x.hits.sample.tolist())]
    den += [("hold", int(c), float(t), float(l), s) for t, c, l, s in zip(x.holds.offset.tolist(), x.holds.column.tolist(), x.holds.length.tolist(), x.holds.sample.tolist())]
    tempo = sorted((float(t), float(b)) for t, b in zip(x.bpms.offset.tolist(), x.bpms.bpm.tolist()))

    def bpm_at(t):
        return [b for tt, b in tempo if tt <= float(t) + 1e-9][-1] if tempo else 120.0

    judge(m, "BME", den, tempo, True, bpm_at, site, case, ctx)


def check_limit(ctx):
    """The documented limit of 1 295 tempo points, probed at the boundary."""
    from reamber.bms import BMSBpm, BMSHit, BMSMap
    from reamber.bms.lists import BMSBpmList
    from reamber.bms.lists.notes import BMSHitList

    for n in (1294,):
        m = BMSMap()
        # one tempo point per beat (a BMS file has at most 1000 measures, so they cannot all sit on measure lines)
        m.bpms = BMSBpmList([BMSBpm(500.0 * i, 120.0) for i in range(n)])
        m.hits = BMSHitList([BMSHit(500.0, 1, b"a.wav"), BMSHit(500.0 * (n - 1) + 250.0, 2, b"a.wav")])
        m.samples = {b"0A": b"a.wav"}
        m.title, m.artist, m.version = b"t", b"a", b"7"
        den = [("hit", 1, 500.0, 0.0, b"a.wav"), ("hit", 2, 500.0 * (n - 1) + 250.0, 0.0, b"a.wav")]
        ctx.case()
        ctx.state(("bmsw-limit", n), nontrivial=True)
        judge(m, "BME", den, [(0.0, 120.0)], True, lambda t: 120.0, dict(route="limit", devs=[]), dict(limit=n), ctx)
