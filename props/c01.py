"""C01 — osu!mania file <-> chart, both directions.

(a) complete (keys, x) table through the item readers/writers; (b) builder-graph search over .osu documents (deviation- and
depth-bounded) pushed through the real reader, writer, reader, ... and compared with the denotation known by construction /
an independent parser; (c) in-memory charts with fractional/negative/huge times through the writer and four generations."""
from __future__ import annotations

import itertools
import math
import os

from mc import builder, core, fileio
from refs import osu as ro

ID = "C01"
TITLE = "osu!mania file and in-memory chart denote the same chart, both directions"
RULE = (
    "builder graph: a state is a distinct abstract .osu document (deviation set x element sequence) or in-memory chart; transitions are "
    "the real read/write calls driven on it; non-trivial = document with >=1 deviation or >=1 appended element"
)
ASSUMPTIONS = [
    "Title/Artist are ASCII (the format defines them as romanised); sample-event file names compared modulo surrounding quotes",
    "effects field in {0,1}; hit-object type 1/128 only; hitsound file names without ':' or ','",
    "times written as integers: objects may move by < 1 ms; two objects truncated to the same ms may swap lines (multiset compare)",
]

STAIRS = dict(quick=[(2, 0), (1, 1), (0, 3)], thorough=[(3, 0), (2, 1), (1, 2), (0, 4)])


def bound(tier, seed):
    return dict(stairs_dev_depth=STAIRS[tier], axes={a: [l for l, _ in v] for a, v in AXES}, elements=[l for l, _ in ELEMENTS],
                keys_x_table="keys 1..18 x x in -2..514 (complete)", inmem_depth=dict(quick=2, thorough=3)[tier])


# ---- axes -------------------------------------------------------------------------------------------------
def _set(path, value):
    def f(doc):
        d = doc
        for p in path[:-1]:
            d = d[p]
        d[path[-1]] = value
    return f


def _obj0(**kw):
    def f(doc):
        doc["objs"][0].update(kw)
    return f


def _allobjs(**kw):
    def f(doc):
        for o in doc["objs"]:
            o.update(kw)
    return f


def _tp0(**kw):
    def f(doc):
        doc["tps"][0].update(kw)
    return f


def _meta(k, v):
    def f(doc):
        doc["meta"][k] = v
    return f


def _samples(v):
    def f(doc):
        doc["samples"] = list(v)
    return f


def _struct(k):
    def f(doc):
        doc["structure"][k] = True
    return f


AXES = [
    ("keys", [(str(k), _set(["keys"], k)) for k in (1, 7, 10, 18)]),
    ("xmode", [(m, _allobjs(xmode=m)) for m in ("lo", "hi")]),
    ("obj_time", [(str(t), _obj0(time=t)) for t in (1, -1, -1500, 999, 2147483)]),
    ("tp_time", [(t, _tp0(time=t)) for t in ("0.5", "-0.25", "1234.5678")]),
    ("beat_length", [(b, _tp0(bl=b)) for b in ("333.3333333333333", "1", "60000", "0.1234")]),
    ("meter", [(str(m), _tp0(meter=m)) for m in (1, 3, 7)]),
    ("tp_fields", [("kiai", _tp0(fx=1)), ("fx8-omit-barline-only", _tp0(fx=8)), ("fx9-kiai+omit-barline", _tp0(fx=9)), ("ss2si3", _tp0(ss=2, si=3)), ("vol100", _tp0(vol=100))]),
    ("hitsound", [("hs2", _obj0(hs=2)), ("hs14", _obj0(hs=14)), ("ss1ads2", _obj0(ss=1, ads=2)), ("ss3ads3", _obj0(ss=3, ads=3)),
                  ("ci1", _obj0(ci=1)), ("ci99", _obj0(ci=99)), ("vol50", _obj0(vol=50)), ("vol100", _obj0(vol=100)), ("hs8all", _allobjs(hs=8))]),
    ("hs_file", [(f, _obj0(file=f)) for f in ("a.wav", "dir/b c.ogg", "é.wav")]),
    ("meta_text", [(f"{k}={v!r}", _meta(k, v)) for k, v in [
        ("Title", "a:b"), ("TitleUnicode", "a:b"), ("Artist", "a:b"), ("ArtistUnicode", "a:b"), ("Creator", "a:b"), ("Version", "a:b"),
        ("Source", "a:b"), ("Tags", "a:b c"), ("AudioFilename", "a:b.mp3"), ("Title", "a: b :c"), ("Version", "a: b :c"),
        ("TitleUnicode", "日本語"), ("Creator", "日本語"), ("Version", "日本語 x"), ("Title", "  lead"),
        ("Source", ""), ("Tags", ""),
        # tags are separated by the ASCII space only: other white space belongs to the tag
        ("Tags", "東方\u3000Project b"), ("Tags", "a\u00a0b c"), ("Tags", "a\tb c"), ("Title", "x ~mix~ \\ y"),
        # Unicode line-boundary characters inside a value are characters of the value (lines end with \n only)
        ("TitleUnicode", "a\u2028b"), ("Version", "a\u0085b")]]),
    ("meta_num", [("preview", _meta("PreviewTime", "86398")), ("preview-7-digits", _meta("PreviewTime", "1234567")), ("leadin-7-digits", _meta("AudioLeadIn", "1000001")),
                  ("floats-exponent", lambda d: d["meta"].update(SliderMultiplier="1e-10", DistanceSpacing="2.5e-10", TimelineZoom="1.5e+20", ApproachRate="3e+30")),
                  ("floats-8-digits", lambda d: d["meta"].update(SliderMultiplier="1.2345678", DistanceSpacing="0.12345678", TimelineZoom="2.3456789", HPDrainRate="7.1234567", StackLeniency="0.12345678")), ("leadin", _meta("AudioLeadIn", "500")), ("hp0", _meta("HPDrainRate", "0")),
                  ("ids", lambda d: d["meta"].update(BeatmapID="2062527", BeatmapSetID="-1")), ("sampleset_none", _meta("SampleSet", "None"))]),
    ("samples", [("one", _samples([(24565, "clap.wav", 70)])), ("two_same_time", _samples([(100, "a.wav", 70), (100, "b.wav", 30)])),
                 ("negative", _samples([(-5, "a.wav", 100)]))]),
    ("structure", [(k, _struct(k)) for k in ("shuffle_objs", "shuffle_tps", "extra_section", "crlf", "trailing", "space_after_colon")]),
]


# ---- elements ---------------------------------------------------------------------------------------------
def _hit(doc, slot):
    doc["objs"].append(dict(kind="hit", col=slot, xmode="centre", time=250 * slot, hs=0, ss=0, ads=0, ci=0, vol=0, file=""))


def _hold(length):
    def f(doc, slot):
        doc["objs"].append(dict(kind="hold", col=slot, xmode="centre", time=250 * slot, end=250 * slot + length, hs=0, ss=0, ads=0, ci=0, vol=0, file=""))
    return f


def _tp(doc, slot):
    doc["tps"].append(dict(time=str(1000 * slot), bl="250", meter=4, ss=1, si=0, vol=50, un=1, fx=0))


def _sv(code, fx=0):
    def f(doc, slot):
        doc["tps"].append(dict(time=str(500 * slot), bl=code, meter=4, ss=1, si=0, vol=50, un=0, fx=fx))
    return f


def _sample(doc, slot):
    doc["samples"].append((250 * slot, f"s{slot}.wav", 60))


ELEMENTS = [("hit", _hit), ("hold1", _hold(1)), ("hold250", _hold(250)), ("hold2000", _hold(2000)), ("tempo", _tp), ("sv-50", _sv("-50")),
            ("sv-12.5k", _sv("-12.5", 1)), ("sample", _sample)]


def finalize(doc):
    for o in doc["objs"]:
        o["col"] = (5 * o["col"]) % doc["keys"]


# ---- library side -----------------------------------------------------------------------------------------
def lib_den(m):
    """Denotation of an in-memory OsuMap as plain data."""
    def rows(tl, cols):
        df = tl.df
        return [{c: _v(df[c].iloc[i]) for c in cols if c in df.columns} for i in range(len(df))]
    NC = ["offset", "column", "hitsound_set", "sample_set", "addition_set", "custom_set", "volume", "hitsound_file"]
    TC = ["offset", "sample_set", "sample_set_index", "volume", "kiai"]
    meta = {}
    for k, attr, sec, kind in ro.META_KEYS:
        meta[attr] = _v(getattr(m, attr))
    meta["background_file_name"] = m.background_file_name
    return dict(hits=rows(m.hits, NC), holds=rows(m.holds, NC + ["length"]), bpms=rows(m.bpms, TC + ["bpm", "metronome"]),
                svs=rows(m.svs, TC + ["multiplier"]), samples=rows(m.samples, ["offset", "sample_file", "volume"]), meta=meta)


def _v(x):
    import numpy as np
    if isinstance(x, (bool, np.bool_)):
        return bool(x)
    if isinstance(x, (int, np.integer)):
        return int(x)
    if isinstance(x, (float, np.floating)):
        return float(x)
    if isinstance(x, list):
        return [_v(i) for i in x]
    return x


def _num_eq(a, b, rel=0.0, abs_=0.0):
    if isinstance(a, bool) or isinstance(b, bool):
        return bool(a) == bool(b)
    if isinstance(a, (int, float)) and isinstance(b, (int, float)):
        if isinstance(a, float) and math.isnan(a) or isinstance(b, float) and math.isnan(b):
            return False
        return abs(a - b) <= abs_ + rel * abs(b)
    return a == b


RELCOLS = {"bpm": 1e-9, "multiplier": 1e-9}


def rows_equal(got, exp, time_tol=0.0, strip_quotes=False):
    """Multiset equality of row dicts: discrete fields exact, offset (and tail) within time_tol (strict <, or == when 0)."""
    if len(got) != len(exp):
        return False

    def disc(r):
        return tuple(sorted((k, (v.strip('"') if strip_quotes and isinstance(v, str) else (float(v) if isinstance(v, (int, float)) and not isinstance(v, bool) else v)))
                            for k, v in r.items() if k not in ("offset", "length") and k not in RELCOLS))

    def cont(r):
        return (r["offset"], r["offset"] + r.get("length", 0.0), tuple(r.get(k, 0.0) for k in RELCOLS))
    def compatible(g, e):
        if set(g) != set(e) or disc(g) != disc(e):
            return False
        for a, b in ((g["offset"], e["offset"]), (g["offset"] + g.get("length", 0.0), e["offset"] + e.get("length", 0.0))):
            d = abs(a - b)
            if not (d < time_tol if time_tol > 0 else d == 0):
                return False
        for k, rel in RELCOLS.items():
            if k in g and not _num_eq(g[k], e[k], rel=rel):
                return False
        return True

    # rows can only match rows with the same discrete part: match class by class; inside a class try the order by time first
    # (always right for exact comparison and for well-separated times), the full bipartite matching only for small classes
    import collections

    ga, ea = collections.defaultdict(list), collections.defaultdict(list)
    for r in got:
        ga[(frozenset(r), disc(r))].append(r)
    for r in exp:
        ea[(frozenset(r), disc(r))].append(r)
    if {k: len(v) for k, v in ga.items()} != {k: len(v) for k, v in ea.items()}:
        return False
    for k, gs in ga.items():
        es = ea[k]
        gs, es = sorted(gs, key=cont), sorted(es, key=cont)
        if all(compatible(g, e) for g, e in zip(gs, es)):
            continue
        # (beyond 600 equal-discrete rows the time order decides: in the generated large documents such rows are >= 125 ms apart)
        if len(gs) > 600 or not perfect_matching(gs, es, compatible):
            return False
    return True


def perfect_matching(A, B, compatible):
    """True iff there is a bijection A->B of compatible pairs (augmenting paths; lists are tiny)."""
    adj = [[j for j, b in enumerate(B) if compatible(a, b)] for a in A]
    match = [-1] * len(B)

    def aug(i, seen):
        for j in adj[i]:
            if j in seen:
                continue
            seen.add(j)
            if match[j] < 0 or aug(match[j], seen):
                match[j] = i
                return True
        return False

    return all(aug(i, set()) for i in range(len(A)))


def meta_equal(got, exp, keys=None):
    bad = {}
    got = dict(got)
    exp = dict(exp)
    for d in (got, exp):
        if d.get("tags") == "":
            d["tags"] = []  # the dataclass default "" and the empty tag list denote the same thing
    for k, v in exp.items():
        if keys is not None and k not in keys:
            continue
        g = got.get(k, "<missing>")
        ok = _num_eq(g, v, rel=1e-12) if isinstance(v, (int, float)) and not isinstance(v, bool) and isinstance(g, (int, float)) else g == v
        if not ok:
            bad[k] = dict(got=g, expected=v)
    return bad


LISTS = ("hits", "holds", "bpms", "svs", "samples")


def compare_den(ctx, clause_prefix, got, exp, site, case, time_tol=0.0, tempo_tol=0.0):
    ok_all = True
    for l in LISTS:
        tol = time_tol if l in ("hits", "holds", "samples") else tempo_tol
        ok = rows_equal(got[l], exp[l], time_tol=tol, strip_quotes=(l == "samples"))
        ctx.check(f"{clause_prefix}.{l}", ok, site=dict(site, list=l), case=case, observed=got[l], expected=exp[l])
        ok_all &= ok
    return ok_all


# ---- document check ----------------------------------------------------------------------------------------
def check_doc(doc, lab, ctx):
    from reamber.osu.OsuMap import OsuMap

    lines = ro.render(doc)
    den = ro.denotation(doc)
    case = dict(kind="doc", label=lab, lines=lines if len(lines) < 200 else lines[:60] + ["..."] + lines[-20:])
    site = dict(route="file") if not lab.get("large") else dict(route="file", large=True)
    ctx.transition()
    try:
        m = OsuMap.read(list(lines))
    except Exception as e:
        ctx.check("read.raises", False, site=dict(site, exc=type(e).__name__), case=case, observed=f"{type(e).__name__}: {e}"[:300], expected="a chart")
        return
    ctx.passed("read.raises")
    got = lib_den(m)
    ok = compare_den(ctx, "read", got, den, site, case)
    bad = meta_equal(got["meta"], den["meta"])
    for k, v in bad.items():
        ctx.check("read.meta", False, site=dict(site, field=k, colon_in_value=":" in str(v["expected"])), case=case, observed=v["got"], expected=v["expected"])
    if not bad:
        ctx.passed("read.meta")
    ctx.outcome((tuple(map(repr, got["hits"])), tuple(map(repr, got["holds"])), tuple(map(repr, got["bpms"])), tuple(map(repr, got["svs"]))))
    if not ok:
        return
    if len(lab.get("devs", ())) <= 1:
        # the file entry points: read_file of a file holding these lines, write_file of the chart
        fileio.check_file_entry_points(ctx, "osu", "\n".join(lines), m, lambda x: lib_den(x), dict(route="file-entry"), case)
    generations(m, got, ctx, site, case, from_file=True)


def generations(m, den0, ctx, site, case, from_file):
    """write -> reference parse -> compare; then read/write cycles: generation n == generation 1."""
    from reamber.osu.OsuMap import OsuMap

    ctx.transition()
    try:
        w1 = m.write()
    except Exception as e:
        ctx.check("write.raises", False, site=dict(site, exc=type(e).__name__), case=case, observed=f"{type(e).__name__}: {e}"[:300], expected="text")
        return
    ctx.passed("write.raises")
    # writing is an observation: the same object written again gives the same lines
    ctx.transition()
    try:
        again = m.write()
        ctx.check("write.repeatable", again == w1, site=dict(route=site.get("route")), case=case, observed=again[-8:], expected=w1[-8:])
    except Exception as e:
        ctx.check("write.repeatable", False, site=dict(route=site.get("route"), exc=type(e).__name__), case=case, observed=f"{type(e).__name__}: {e}"[:300], expected="the same lines")
    try:
        p1 = ro.parse(w1)
    except ro.Malformed as e:
        ctx.check("write.wellformed", False, site=site, case=case, observed=str(e)[:300], expected="well-formed v14 mania text")
        return
    ctx.passed("write.wellformed")
    compare_den(ctx, "write.denotes", p1, den0, site, case, time_tol=1.0, tempo_tol=0.0)
    bad = meta_equal(p1["meta"], den0["meta"])
    for k, v in bad.items():
        ctx.check("write.meta", False, site=dict(site, field=k), case=case, observed=v["got"], expected=v["expected"])
    if not bad:
        ctx.passed("write.meta")
    # read back what was written
    ctx.transition()
    try:
        g1 = OsuMap.read("\n".join(w1).split("\n"))
    except Exception as e:
        ctx.check("rt.read_written.raises", False, site=dict(site, exc=type(e).__name__), case=case, observed=f"{type(e).__name__}: {e}"[:300], expected="a chart")
        return
    d1 = lib_den(g1)
    compare_den(ctx, "rt.read_write_read", d1, den0, site, case, time_tol=1.0, tempo_tol=0.0)
    # the library's own reading of its text agrees with the reference parser's reading
    compare_den(ctx, "rt.reader_vs_reference", d1, p1, site, case)
    bad = meta_equal(d1["meta"], den0["meta"])
    for k, v in bad.items():
        ctx.check("rt.meta", False, site=dict(site, field=k), case=case, observed=v["got"], expected=v["expected"])
    if not bad:
        ctx.passed("rt.meta")
    prev, prev_den = g1, d1
    for gen in (2, 3, 4):
        ctx.transition(2)
        try:
            w = prev.write()
            g = OsuMap.read("\n".join(w).split("\n"))
        except Exception as e:
            ctx.check("rt.no_drift", False, site=dict(site, gen=gen, exc=type(e).__name__), case=case, observed=f"{type(e).__name__}: {e}"[:300], expected="same chart")
            return
        dg = lib_den(g)
        okg = all(rows_equal(dg[l], d1[l], strip_quotes=(l == "samples")) for l in LISTS) and not meta_equal(dg["meta"], d1["meta"])
        ctx.check("rt.no_drift", okg, site=dict(site, gen=gen), case=case, observed={l: dg[l] for l in LISTS}, expected={l: d1[l] for l in LISTS})
        if gen == 2:
            ctx.check("rt.write_stable", w == w1 or _same_text_mod_order(w, w1), site=site, case=case, observed=w, expected=w1)
        prev = g


def _same_text_mod_order(a, b):
    return sorted(a) == sorted(b)


# ---- in-memory charts ---------------------------------------------------------------------------------------
OFFS = [0.0, 0.4, 0.5, 0.999, -0.5, -1.5, 1e6 + 0.7, 250.25]
LENS = [0.6, 1.0, 250.25]
BPMV = [120.0, 90.5, 1e-3, 1e5]
MULT = [1.0, 0.1, 10.0, -1.0]
KEYS = [1, 4, 7, 18]


def inmem_cases(tier):
    """(keys, [objects]) with objects = ('hit',col,off) | ('hold',col,off,len) | ('bpm',off,bpm) | ('sv',off,mult) | ('sample',off)"""
    atoms = []
    for o in OFFS:
        atoms.append(("hit", 0, o))
    for o in OFFS[:6]:
        for ln in LENS:
            atoms.append(("hold", 1, o, ln))
    for b in BPMV:
        atoms.append(("bpm", 0.25, b))
    for mu in MULT:
        atoms.append(("sv", 10.5, mu))
    atoms.append(("sample", 99.9))
    atoms.append(("sample", -0.5))
    depth = 2 if tier == "quick" else 3
    out = []
    for n in range(1, depth + 1):
        for combo in itertools.combinations(range(len(atoms)), n):
            if n == 3 and sum(1 for c in combo if atoms[c][0] in ("hit", "hold")) < 2:
                continue
            out.append([atoms[c] for c in combo])
    return out


def build_inmem(keys, objs):
    from reamber.osu import OsuMap, OsuHit, OsuHold, OsuBpm, OsuSv
    from reamber.osu.OsuSample import OsuSample
    from reamber.osu.lists import OsuBpmList, OsuSvList, OsuSampleList
    from reamber.osu.lists.notes import OsuHitList, OsuHoldList

    m = OsuMap()
    m.circle_size = keys
    m.title = "t"
    m.version = "v"
    hits, holds, bpms, svs, samples = [], [], [OsuBpm(offset=0.0, bpm=150.0)], [], []
    for i, o in enumerate(objs):
        col = (o[1] + i) % keys if o[0] in ("hit", "hold") else 0
        if o[0] == "hit":
            hits.append(OsuHit(offset=o[2], column=col, hitsound_set=2 * (i % 2)))
        elif o[0] == "hold":
            holds.append(OsuHold(offset=o[2], column=col, length=o[3]))
        elif o[0] == "bpm":
            bpms.append(OsuBpm(offset=o[1], bpm=o[2], metronome=3))
        elif o[0] == "sv":
            svs.append(OsuSv(offset=o[1], multiplier=o[2]))
        elif o[0] == "sample":
            samples.append(OsuSample(offset=o[1], sample_file="x.wav", volume=40))
    m.hits = OsuHitList(hits)
    m.holds = OsuHoldList(holds)
    m.bpms = OsuBpmList(bpms)
    m.svs = OsuSvList(svs)
    m.samples = OsuSampleList(samples)
    return m


def check_inmem(keys, objs, ctx):
    case = dict(kind="inmem", keys=keys, objs=objs)
    site = dict(route="inmem")
    ctx.transition()
    try:
        m = build_inmem(keys, objs)
    except Exception as e:
        ctx.check("inmem.build", False, site=dict(site, exc=type(e).__name__), case=case, observed=f"{type(e).__name__}: {e}"[:300], expected="a chart")
        return
    den0 = lib_den(m)
    generations(m, den0, ctx, site, case, from_file=False)
    # second use: the same object, already written once, is turned into a chart with another key count in place
    # (setter for CircleSize, column setters of the lists); what it writes then denotes the chart as it is now.
    # The expectation comes from a fresh twin built with the new key count, never from the used object.
    for k2 in ([7 if keys != 7 else 4] if len(objs) > 2 else [k for k in (4, 7, 10) if k != keys]):
        twin = build_inmem(k2, objs)
        ctx.transition()
        try:
            m.circle_size = k2
            m.hits.column = twin.hits.column.to_numpy()
            m.holds.column = twin.holds.column.to_numpy()
        except Exception as e:
            ctx.check("inmem.rekey", False, site=dict(route="inmem/rekey", exc=type(e).__name__), case=case, observed=f"{type(e).__name__}: {e}"[:300], expected="edited chart")
            return
        generations(m, lib_den(twin), ctx, dict(route="inmem/rekey", to=k2), dict(case, rekey=k2), from_file=False)


# ---- (keys, x) table ------------------------------------------------------------------------------------------
def check_table(keys, ctx):
    from reamber.osu.OsuHit import OsuHit
    from reamber.osu.OsuHold import OsuHold

    for x in range(-2, 515):
        exp = max(0, min(keys - 1, (x * keys) // 512))
        ctx.transition(2)
        ctx.case()
        ctx.state(("kx", keys, x), nontrivial=True)
        h = OsuHit.read_string(f"{x},192,100,1,0,0:0:0:0:", keys, as_dict=True)
        ctx.check("table.hit_column", h["column"] == exp, site=dict(keys=keys, x=x) if h["column"] != exp else {}, case=dict(kind="table", keys=keys), observed=h["column"], expected=exp)
        ho = OsuHold.read_string(f"{x},192,100,128,0,300:0:0:0:0:", keys, as_dict=True)
        ctx.check("table.hold_column", ho["column"] == exp, site=dict(keys=keys, x=x) if ho["column"] != exp else {}, case=dict(kind="table", keys=keys), observed=ho["column"], expected=exp)
        ctx.outcome((keys, exp))
    for col in range(keys):
        ctx.transition(2)
        s = OsuHit(offset=100, column=col).write_string(keys)
        x = int(s.split(",")[0])
        back = OsuHit.read_string(s, keys, as_dict=True)["column"]
        ctx.check("table.write_read_column", back == col and 0 <= x < 512 and (x * keys) // 512 == col, site=dict(keys=keys, column=col) if back != col else {},
                  case=dict(kind="table", keys=keys), observed=dict(x=x, back=back), expected=col)


# ---- search ---------------------------------------------------------------------------------------------------
CHUNK = 60
_DOCS = {}


def _docs(tier):
    if tier not in _DOCS:
        _DOCS[tier] = builder.staircase(AXES, ELEMENTS, STAIRS[tier])
    return _DOCS[tier]


# size: documents beyond any small-array fast path, table capacity or chunk boundary (n objects, keys)
LARGE = dict(quick=[(40, 4), (300, 7), (2500, 10)], thorough=[(17, 4), (40, 4), (300, 7), (1025, 18), (2500, 10), (10000, 7)])


def large_doc(n, keys):
    """n objects 125 ms apart (every 7th a hold), a tempo change every 50 objects, an SV every 20, a sample event every 100;
    hitsound fields vary with the index so that rows cannot be exchanged unnoticed."""
    doc = ro.default_doc()
    doc["keys"] = keys
    doc["objs"], doc["tps"], doc["samples"] = [], [], []
    bls = ["500", "333.333333333333", "250.5", "1000"]
    for i in range(n):
        t = 125 * i
        col = (i * 5) % keys
        o = dict(kind="hit", col=col, xmode=("centre", "lo", "hi")[i % 3], time=t, hs=(i % 8) * 2, ss=i % 4, ads=(i // 4) % 4, ci=i % 3, vol=i % 101, file="" if i % 11 else f"f{i}.wav")
        if i % 7 == 3:
            o.update(kind="hold", end=t + 100)
        doc["objs"].append(o)
        if i % 50 == 0:
            doc["tps"].append(dict(time=str(t), bl=bls[(i // 50) % 4], meter=4 if i % 100 == 0 else 3, ss=1 + (i // 50) % 3, si=(i // 50) % 5, vol=40 + (i // 50) % 60, un=1, fx=(i // 50) % 2))
        if i % 20 == 7:
            doc["tps"].append(dict(time=str(t), bl=repr(-100.0 / (0.5 + (i % 9) * 0.25)), meter=4, ss=1, si=0, vol=50, un=0, fx=0))
        if i % 100 == 42:
            doc["samples"].append((t, f"e{i}.wav", 30 + i % 70))
    return doc


def roots(tier, seed):
    n = len(_docs(tier))
    r = [dict(kind="docs", start=s, stop=min(n, s + CHUNK)) for s in range(0, n, CHUNK)]
    r += [dict(kind="large", n=k, keys=ky) for k, ky in LARGE[tier]]
    r += [dict(kind="table", keys=k) for k in range(1, 19)]
    ni = len(inmem_cases(tier))
    r += [dict(kind="inmem", keys=k, start=s, stop=min(ni, s + 100)) for k in KEYS for s in range(0, ni, 100)]
    return r


def explore(root, tier, ctx):
    if root["kind"] == "docs":
        docs = _docs(tier)
        for i in range(root["start"], root["stop"]):
            devs, seq = docs[i]
            doc = builder.build(ro.default_doc, AXES, ELEMENTS, devs, seq, finalize)
            lab = builder.label(AXES, ELEMENTS, devs, seq)
            ctx.case()
            ctx.state(("doc", devs, seq), nontrivial=bool(devs or seq))
            ctx.depth(len(seq))
            if (i % 997 == 0 or (len(devs) == 2 and len(ctx.samples) < 1)) and len(ctx.samples) < 2:
                ctx.sample(dict(label=lab, lines=ro.render(doc)[-8:]))
            check_doc(doc, lab, ctx)
    elif root["kind"] == "large":
        ctx.case()
        ctx.state(("large", root["n"], root["keys"]), nontrivial=True)
        check_doc(large_doc(root["n"], root["keys"]), dict(devs=[], elems=[], large=[root["n"], root["keys"]]), ctx)
    elif root["kind"] == "table":
        check_table(root["keys"], ctx)
    elif root["kind"] == "inmem":
        cases = inmem_cases(tier)
        for i in range(root["start"], root["stop"]):
            ctx.case()
            ctx.state(("inmem", root["keys"], i), nontrivial=True)
            check_inmem(root["keys"], cases[i], ctx)


def replay(case, ctx):
    from reamber.osu.OsuMap import OsuMap

    if case["kind"] == "table":
        check_table(case["keys"], ctx)
    elif case["kind"] == "inmem":
        check_inmem(case["keys"], [tuple(o) for o in case["objs"]], ctx)
    else:
        # rebuild the document from its label so that the denotation is known by construction
        lab = case["label"]
        if lab.get("large"):
            check_doc(large_doc(*lab["large"]), lab, ctx)
            return
        devs = []
        for d in lab["devs"]:
            a, _, v = d.partition("=")
            ai = [i for i, (n, _) in enumerate(AXES) if n == a][0]
            vi = [j for j, (l, _) in enumerate(AXES[ai][1]) if l == v][0]
            devs.append((ai, vi))
        seq = [[i for i, (l, _) in enumerate(ELEMENTS) if l == e][0] for e in lab["elems"]]
        doc = builder.build(ro.default_doc, AXES, ELEMENTS, devs, seq, finalize)
        check_doc(doc, lab, ctx)
