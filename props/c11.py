"""C11 — reseating tempo changes onto measure lines keeps every change at its time.

Exhaustive enumeration of all tempo lists on a half-beat (quick) / quarter-beat (thorough) grid plus an epsilon alphabet that
drives the two 'extend' branches, through the three API entry points; times by exact Fraction integration."""
from __future__ import annotations

import itertools
from fractions import Fraction as F

from mc import core
from refs import timing as rt

ID = "C11"
LARGE = dict(quick="lists of 40 and 300 changes", thorough="lists of 40, 300 and 1200 changes")
TITLE = "Reseating tempo changes onto measure lines keeps every change at its time"
RULE = (
    "function enumeration: a state is a distinct (tempo list, initial offset, entry point); a transition is one reseat call; "
    "non-trivial = at least one change off a measure line"
)
ASSUMPTIONS = [
    "tolerance 1e-6 ms between float64 results and exact Fraction integration of the returned (bpm, metronome, measure) list",
    "'randomly on finer grids' is replaced by an exhaustive quarter-beat grid plus an epsilon alphabet near measure/beat lines",
]
TOL = 1e-6
BPMS = [F(60), F(120), F(180)]
EPS = [F(1, 4000), F(1, 2000), F(1, 1000), F(1, 999), F(1, 500)]
INITS = [F(0), F(-2001, 2), F(250)]


def bound(tier, seed):
    return dict(
        changes=dict(quick="2..3", thorough="2..5")[tier],
        grid=dict(quick="quarter-beat (2 changes) / half-beat (3 changes), 16 beats", thorough="quarter-beat, 16 beats (n<=3); half-beat 12 beats and quarter-beat 8 beats (n=4); half-beat 12 beats (n=5)")[tier],
        metronomes=[4, 3, 5, 7],
        bpms=[str(b) for b in BPMS] + (["173.5"] if tier == "thorough" else []),
        eps_alphabet=[str(e) for e in EPS],
        entry_points=["reseat_bpm_changes_snap", "from_bpm_changes_snap(reseat=True)", "TimingMap.reseat()"],
    )


def lists(tier):
    out = []
    bp = BPMS + ([F(347, 2)] if tier == "thorough" else [])
    step = F(1, 4) if tier == "thorough" else F(1, 2)
    for m in (4, 3, 5, 7):
        grid = [step * k for k in range(1, int(16 / step) + 1)]
        for pos in grid if tier == "thorough" else [F(k, 4) for k in range(1, 65)]:
            for b0, b1 in itertools.product(bp, repeat=2):
                out.append(("grid", m, [(b0, F(0)), (b1, pos)]))
        g3 = grid if tier == "quick" else grid[::1]
        for p1, p2 in itertools.combinations(g3, 2):
            pats = [(bp[r % len(bp)], bp[(r + 1) % len(bp)], bp[(r + 2) % len(bp)]) for r in range(3 if tier == "thorough" else 2)]
            for bs in pats:
                out.append(("grid", m, [(bs[0], F(0)), (bs[1], p1), (bs[2], p2)]))
        if tier == "thorough":
            gh = [F(k, 2) for k in range(1, 25)]
            for ps in itertools.combinations(gh, 3):
                out.append(("grid", m, [(bp[0], F(0)), (bp[1], ps[0]), (bp[2], ps[1]), (bp[3], ps[2])]))
            # four changes after the first on the quarter-beat grid of the first 8 beats; five on the half-beat grid of 12 beats
            gq = [F(k, 4) for k in range(1, 33)]
            for ps in itertools.combinations(gq, 3):
                out.append(("grid", m, [(bp[1], F(0)), (bp[3], ps[0]), (bp[0], ps[1]), (bp[2], ps[2])]))
            for ps in itertools.combinations(gh, 4):
                out.append(("grid", m, [(bp[0], F(0)), (bp[1], ps[0]), (bp[2], ps[1]), (bp[3], ps[2]), (bp[1], ps[3])]))
        # size: lists of 40 / 300 (thorough: 1200) changes, gaps cycling through on-line and off-line values
        gaps = [F(1, 2), F(3), F(4), F(5, 4), F(8), F(11, 4), F(m), F(2 * m) + F(1, 2)]
        for n in (40, 300) + ((1200,) if tier == "thorough" else ()):
            if n == 300 and m not in (4, 3):
                continue
            pos, chl = F(0), []
            for i in range(n):
                chl.append((bp[i % len(bp)], pos))
                pos += gaps[i % len(gaps)]
            out.append(("long", m, chl))
        # epsilon alphabet: a change just after a measure line / a beat line of the running segment
        for k in (0, 1, 4, 5, 8) if m == 4 else (0, 1, 3, 4, 6):
            for e in EPS:
                for scale, tag in ((m, "eps_measure"), (1, "eps_beat")):
                    p = F(k) + e * scale
                    for b0, b1 in ((bp[1], bp[2]), (bp[0], bp[1])):
                        out.append((tag, m, [(b0, F(0)), (b1, p)]))
                        out.append((tag, m, [(b0, F(0)), (b1, p), (b0, p + 6)]))
                        out.append((tag, m, [(b0, F(0)), (b1, F(2)), (b0, F(2) + p)]))
    return out


def mixed_lists(tier):
    """Tempo lists given by OFFSETS with a metronome that changes mid-measure (times are unambiguous in ms): only the
    TimingMap.reseat() entry point is exercised on them."""
    out = []
    pairs = [(4, 3), (7, 4), (3, 4), (4, 5), (5, 3), (4, 2)]
    gaps = [F(k, 2) for k in range(1, 19)] if tier == "thorough" else [F(k) for k in range(1, 10)] + [F(5, 2), F(7, 2)]
    for m0, m1 in pairs:
        for g in gaps:
            out.append([(F(120), m0, F(0)), (F(90), m1, g)])
            for g2 in (F(2), F(5), F(13, 2)):
                out.append([(F(120), m0, F(0)), (F(90), m1, g), (F(180), m0, g + g2)])
    return out


CHUNK = 400


def roots(tier, seed):
    n = len(lists(tier))
    return [dict(start=s, stop=min(n, s + CHUNK)) for s in range(0, n, CHUNK)] + [dict(mixed=True)]


_C = {}


def explore(root, tier, ctx):
    if root.get("mixed"):
        for i, ch in enumerate(mixed_lists(tier)):
            check_mixed(ch, INITS[i % 3], ctx)
        return
    if tier not in _C:
        _C[tier] = lists(tier)
    ls = _C[tier]
    for i in range(root["start"], root["stop"]):
        tag, m, ch = ls[i]
        check_one(tag, m, ch, INITS[i % 3], ctx)


def check_mixed(ch, init, ctx):
    """ch: [(bpm, metronome, beats from the first change)] ; entry: TimingMap.from_bpm_changes_offset(...).reseat()."""
    from reamber.algorithms.timing.TimingMap import TimingMap
    from reamber.algorithms.timing.utils.BpmChangeOffset import BpmChangeOffset

    case = dict(tag="mixed", init=str(init), changes=[(str(b), m, str(p)) for b, m, p in ch])
    ots = [F(init)]
    for (b0, m0, p0), (b1, m1, p1) in zip(ch[:-1], ch[1:]):
        ots.append(ots[-1] + (p1 - p0) * F(60000) / b0)
    ctx.state(("c11-mixed", str(init), tuple(case["changes"])), nontrivial=True)
    ctx.case()
    ctx.transition(2)
    site = dict(entry="TimingMap.reseat", mixed_metronome=True, n_changes=len(ch))
    try:
        tm0 = TimingMap.from_bpm_changes_offset([BpmChangeOffset(float(b), m, float(t)) for (b, m, p), t in zip(ch, ots)])
        tm3 = tm0.reseat()
        bco = tm3.bpm_changes_offset
        bcs = tm3.bpm_changes_snap()
    except Exception as e:
        ctx.check("raises", False, site=dict(site, exc=type(e).__name__, eps_near_line=False), case=case, observed=f"{type(e).__name__}: {e}"[:200], expected="a TimingMap")
        return
    ctx.passed("raises")
    fl = [float(b.offset) for b in bco]
    ctx.check("on_measure", all(s.snap.beat == 0 for s in bcs), site=site, case=case, observed=[str(s.snap) for s in bcs], expected="all beats 0")
    miss = [float(t) for t in ots if not any(abs(float(t) - x) <= TOL + 1e-12 * abs(float(t)) for x in fl)]
    ctx.check("orig_times_kept", not miss, site=site, case=case, observed=dict(result_times=fl, missing=miss), expected=[float(t) for t in ots])
    if miss:
        return
    bad = []
    for a, b in zip(ots[:-1], ots[1:]):
        inside = [x for x in fl if float(a) + TOL < x < float(b) - TOL]
        if len(inside) > 1:
            bad.append((float(a), float(b), inside))
    ctx.check("at_most_one_insert", not bad and not [x for x in fl if x > float(ots[-1]) + TOL], site=site, case=case, observed=bad, expected="<=1 inserted point per original interval")
    wrong = []
    for k, (b, m, p) in enumerate(ch):
        whole = k == len(ch) - 1 or ((ch[k + 1][2] - p) % m == 0)
        if whole:
            idx = [j for j, x in enumerate(fl) if abs(x - float(ots[k])) <= TOL + 1e-12 * abs(x)]
            act = bco[idx[-1]].bpm
            if abs(act - float(b)) > 1e-9 * float(b):
                wrong.append((k, float(b), act))
    ctx.check("bpm_kept_if_whole", not wrong, site=site, case=case, observed=wrong, expected="original bpm at those changes")
    ctx.outcome((tuple(round(x, 6) for x in fl), tuple(round(float(b.bpm), 9) for b in bco)))


def replay(case, ctx):
    if case.get("tag") == "mixed":
        check_mixed([(F(b), int(m), F(p)) for b, m, p in case["changes"]], F(case["init"]), ctx)
        return
    ch = [(F(b), F(p)) for b, p in case["changes"]]
    check_one(case["tag"], case["metronome"], ch, F(case["init"]), ctx)


def eps_near_line(m, ch):
    """Input class of the two 'extend' branches: some gap between consecutive changes has a remainder in (0, 0.001] -
    'measure-line': of a measure; 'beat-line': of a beat, at least one whole beat off the measure line (the library's second
    'extend' branch, which shortens the measure instead of inserting a very fast bpm). False otherwise."""
    kind = False
    for (b0, p0), (b1, p1) in zip(ch[:-1], ch[1:]):
        gap = p1 - p0  # beats
        rb = gap % 1
        rm = (gap / m) % 1
        if 0 < rm <= F(1, 1000):
            kind = kind or "measure-line"
        elif 0 < rb <= F(1, 1000) and (gap // 1) % m != 0:
            return "beat-line"
    return kind


def integrate(init, res):
    """Exact times of a returned list of (bpm float, metronome, measure, beat)."""
    ts = [F(init)]
    for (b0, m0, me0, be0), (b1, m1, me1, be1) in zip(res[:-1], res[1:]):
        ts.append(ts[-1] + ((me1 - me0) * F(m0) + (F(be1) - F(be0))) * F(60000) / F(b0))
    return ts


def bpm_at(ts, bpms, t):
    """Active bpm at time t of a right-continuous step function (the last point at or before t wins)."""
    act = bpms[0]
    for x, b in zip(ts, bpms):
        if x <= t:
            act = b
    return act


def same_timeline(t1, b1, t2, b2):
    """'Which bpm is active at which time': compared at every breakpoint of either list (shifted by +-2e-6 ms so that float
    noise in a breakpoint position cannot flip the answer) and at the midpoints; bpm relative 1e-9."""
    pts = sorted(set(t1) | set(t2))
    probes = []
    for a, b in zip(pts[:-1], pts[1:]):
        if b - a > F(1, 10**5):
            probes += [a + F(2, 10**6), (a + b) / 2, b - F(2, 10**6)]
    probes.append(pts[-1] + 1)
    obs, exp, same = [], [], True
    for t in probes:
        x, y = bpm_at(t1, b1, t), bpm_at(t2, b2, t)
        exp.append((float(t), x))
        obs.append((float(t), y))
        if abs(x - y) > 1e-9 * abs(x):
            same = False
    return same, obs, exp


def check_one(tag, m, ch, init, ctx):
    from reamber.algorithms.timing.TimingMap import TimingMap
    from reamber.algorithms.timing.utils.BpmChangeSnap import BpmChangeSnap
    from reamber.algorithms.timing.utils.snap import Snap

    case = dict(tag=tag, metronome=m, init=str(init), changes=[(str(b), str(p)) for b, p in ch])
    eps = eps_near_line(m, ch)
    site0 = dict(eps_near_line=eps, n_changes=len(ch))
    offmeasure = any(p % m != 0 for _, p in ch)
    ctx.state(("c11", m, str(init), tuple(case["changes"])), nontrivial=offmeasure)
    if len(ctx.samples) < 3 and offmeasure:
        ctx.sample(case)
    # original times (positions are beats from the first change at constant metronome m)
    ots = [F(init)]
    for (b0, p0), (b1, p1) in zip(ch[:-1], ch[1:]):
        ots.append(ots[-1] + (p1 - p0) * F(60000) / b0)

    def mk():
        return [BpmChangeSnap(float(b), m, Snap(int(p // m), p % m, m)) for b, p in ch]

    def judge(entry, times, bpms, on_measure):
        """times/bpms: the result's tempo points (exact Fractions / floats)."""
        site = dict(site0, entry=entry)
        ctx.check("on_measure", on_measure, site=site, case=case, observed="beat != 0 in result", expected="all beats 0")
        # every original change time is a tempo point of the result
        miss = [float(t) for t in ots if not any(abs(float(t) - float(x)) <= TOL + 1e-12 * abs(float(t)) for x in times)]
        ctx.check("orig_times_kept", not miss, site=site, case=case, observed=dict(result_times=[float(x) for x in times], missing=miss), expected=[float(t) for t in ots])
        if miss:
            return
        # at most one inserted point per original interval, none after the last change
        fl = [float(x) for x in times]
        bad = []
        for a, b in zip(ots[:-1], ots[1:]):
            inside = [x for x in fl if float(a) + TOL < x < float(b) - TOL]
            if len(inside) > 1:
                bad.append((float(a), float(b), inside))
        extra_after = [x for x in fl if x > float(ots[-1]) + TOL]
        ctx.check("at_most_one_insert", not bad and not extra_after, site=site, case=case, observed=dict(intervals=bad, after_last=extra_after), expected="<=1 inserted point per original interval")
        # original bpm kept wherever a whole number of measures follows (and for the last change)
        wrong = []
        for k, (b, p) in enumerate(ch):
            whole = k == len(ch) - 1 or ((ch[k + 1][1] - p) % m == 0)
            if not whole:
                continue
            idx = [j for j, x in enumerate(fl) if abs(x - float(ots[k])) <= TOL + 1e-12 * abs(x)]
            act = bpms[idx[-1]]
            if abs(act - float(b)) > 1e-9 * float(b):
                wrong.append((k, float(b), act))
        ctx.check("bpm_kept_if_whole", not wrong, site=site, case=case, observed=wrong, expected="original bpm at those changes")
        ctx.outcome((tuple(round(x, 6) for x in fl), tuple(round(float(b), 9) for b in bpms)))

    # entry 1: the list function
    ctx.transition()
    ctx.case()
    res = None
    arg = mk()
    if len(ch) >= 2 and sum(int(p) for _, p in ch) % 2:
        arg = arg[::-1]  # a list of changes has no order of its own: handed over in reverse for half of the lists
    arg_before = [(a.bpm, a.metronome, int(a.snap.measure), F(a.snap.beat)) for a in arg]
    try:
        res = TimingMap.reseat_bpm_changes_snap(arg)
    except Exception as e:
        ctx.check("raises", False, site=dict(site0, entry="reseat_bpm_changes_snap", exc=type(e).__name__), case=case, observed=f"{type(e).__name__}: {e}"[:200], expected="a reseated list")
    if res is not None:
        ctx.passed("raises")
        # the caller's list still denotes its original changes (their times are what the result must contain)
        arg_after = [(a.bpm, a.metronome, int(a.snap.measure), F(a.snap.beat)) for a in arg]
        ctx.check("orig_list_intact", arg_after == arg_before, site=dict(site0), case=case, observed=[(x[0], x[2], str(x[3])) for x in arg_after], expected=[(x[0], x[2], str(x[3])) for x in arg_before])
        try:
            tup = [(r.bpm, r.metronome, int(r.snap.measure), r.snap.beat) for r in res]
            times = integrate(init, tup)
            judge("reseat_bpm_changes_snap", times, [r.bpm for r in res], all(r.snap.beat == 0 for r in res))
        except ZeroDivisionError as e:
            ctx.check("result.degenerate", False, site=dict(site0, entry="reseat_bpm_changes_snap"), case=case, observed=[repr(r) for r in res], expected="positive bpm and metronome")
        # reseating an already seated list leaves bpm(t) unchanged
        ctx.transition()
        try:
            res2 = TimingMap.reseat_bpm_changes_snap(res)
            t1 = integrate(init, [(r.bpm, r.metronome, int(r.snap.measure), r.snap.beat) for r in res])
            t2 = integrate(init, [(r.bpm, r.metronome, int(r.snap.measure), r.snap.beat) for r in res2])
            same, obs, exp = same_timeline(t1, [r.bpm for r in res], t2, [r.bpm for r in res2])
            ctx.check("seated_is_fixpoint", same, site=dict(site0), case=case, observed=obs, expected=exp)
        except ZeroDivisionError:
            pass
        except Exception as e:
            ctx.check("seated_is_fixpoint", False, site=dict(site0, exc=type(e).__name__), case=case, observed=f"{type(e).__name__}: {e}"[:200], expected="unchanged timeline")
    # entry 2: TimingMap.from_bpm_changes_snap(reseat=True)
    ctx.transition()
    tm = None
    try:
        tm = TimingMap.from_bpm_changes_snap(float(init), mk(), reseat=True)
    except Exception as e:
        ctx.check("raises", False, site=dict(site0, entry="from_bpm_changes_snap", exc=type(e).__name__), case=case, observed=f"{type(e).__name__}: {e}"[:200], expected="a TimingMap")
    if tm is not None:
        ctx.passed("raises")
        bco = tm.bpm_changes_offset
        judge("from_bpm_changes_snap", [F(b.offset) for b in bco], [b.bpm for b in bco], True)
    # entry 3: TimingMap.reseat() of the unseated map (positions recovered through the Snapper: only for grid lists)
    if tag == "grid":
        ctx.transition(2)
        try:
            tm0 = TimingMap.from_bpm_changes_snap(float(init), mk(), reseat=False)
            tm3 = tm0.reseat()
            bco = tm3.bpm_changes_offset
            bcs = tm3.bpm_changes_snap()
            judge("TimingMap.reseat", [F(b.offset) for b in bco], [b.bpm for b in bco], all(s.snap.beat == 0 for s in bcs))
        except Exception as e:
            ctx.check("raises", False, site=dict(site0, entry="TimingMap.reseat", exc=type(e).__name__), case=case, observed=f"{type(e).__name__}: {e}"[:200], expected="a TimingMap")
