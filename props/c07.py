"""C07 — O2Jam reading places every note and tempo change at the time its measure implies.

Builder-graph search over abstract OJN documents (header + three difficulties of packages) encoded to bytes by my encoder
(refs/ojn.py), read by the real O2JMapSet.read and compared with the denotation known by construction (exact Fraction integration
of measure + slot/slots over the header tempo and every tempo-channel event before it)."""
from __future__ import annotations

import copy
from fractions import Fraction as F

from mc import builder, canon, fileio
from refs import ojn as ro

ID = "C07"
TITLE = "O2Jam reading places every note and tempo change at the time its measure implies"
RULE = (
    "builder graph: a state is a distinct abstract OJN document (deviation set x element sequence); a transition is one O2JMapSet.read of "
    "its encoding; non-trivial = at least one deviation or appended element"
)
ASSUMPTIONS = [
    "two tempo events on one position (possible when each has a package of its own): the one that comes later in the file is in force, as for duplicate entries in the other formats",
    "4 beats per measure (channel 0, fractional measures, is not generated: the source marks it as unverified)",
    "float32 tempos are taken at their exact value; tolerance 1e-6 ms + 1e-9 relative",
    "header strings are zero-padded ASCII (DESIGN 7.11)",
    "a long-note tail closes the open head of its column in package order; packages are permuted only in ways that keep head before tail",
]
TECHNIQUE = "builder-graph search over abstract OJN byte documents (own encoder) driven through the real reader; denotation known by construction, times by exact Fraction integration"
LEVEL_TEXT = (
    "Every OJN document with <=2 (quick) / <=3 (thorough) deviations over 11 axes (header tempo, 8 tempo-event layouts incl. none / at "
    "measure 0 / mid-measure / several / after the last note / zero slots, slot counts 2..16, measures 1/2/5, columns, long notes within a "
    "package / across packages / across measures, autoplay channel, one column in two packages of a measure, package order, header "
    "strings, tempo events in all three difficulties) combined with element sequences (notes, long notes, tempo events) up to depth 2/3; "
    "clauses: all 22 header fields, three difficulties, column, LN pairing, note / LN-end / tempo-change times, tempo values."
)
LEVEL_NOTE = "Bounded palettes (measures <=6, <=16 slots). Volume/pan nibbles are not part of the property."

STAIRS = dict(quick=[(2, 2), (1, 3), (0, 3)], thorough=[(3, 2), (2, 3), (1, 4)])
TOL = 1e-6


def default_doc():
    return dict(
        header=dict(ro.HEADER_DEFAULT),
        # events per difficulty: (measure, pos Fraction, channel, kind, value) ; kind: n0 note, n2 head, n3 tail, b tempo
        ev=[
            [(0, F(0), 2, "n0", None), (3, F(1, 2), 5, "n0", None)],
            [(1, F(1, 2), 3, "n0", None), (2, F(0), 2, "n2", None), (2, F(1, 2), 2, "n3", None)],
            [(0, F(0), 8, "n0", None), (2, F(1, 4), 8, "n0", None), (1, F(0), 5, "n2", None), (3, F(1, 4), 5, "n3", None)],
        ],
        slots=None,
        order="sorted",
        autoplay=False,
        split=False,
        tempo_own_packages=False,
    )


def ax_bpm(v):
    def f(doc):
        doc["header"]["bpm"] = v

    return f


def ax_tempo(evs, all_diffs=False, own_packages=False):
    def f(doc):
        for d in range(3 if all_diffs else 1):
            for m, p, v in evs:
                doc["ev"][d].append((m, p, 1, "b", v))
        if own_packages:
            doc["tempo_own_packages"] = True

    return f


def ax_slots(n):
    def f(doc):
        m, p, ch, k, v = doc["ev"][0][0]
        doc["ev"][0][0] = (m, F(n - 1, n), ch, k, v)

    return f


def ax_measure(mm):
    def f(doc):
        m, p, ch, k, v = doc["ev"][0][0]
        doc["ev"][0][0] = (mm, p, ch, k, v)

    return f


def ax_col(ch):
    def f(doc):
        m, p, _, k, v = doc["ev"][0][0]
        doc["ev"][0][0] = (m, p, ch, k, v)

    return f


def ax_ln(tm, tp):
    def f(doc):
        m, p, ch, k, v = doc["ev"][0][0]
        doc["ev"][0][0] = (m, p, ch, "n2", v)
        doc["ev"][0].append((m + tm, tp, ch, "n3", None))

    return f


def ax_flag(k, v=True):
    def f(doc):
        doc[k] = v

    return f


def ax_split(doc):
    doc["split"] = True
    m, p, ch, k, v = doc["ev"][0][0]
    doc["ev"][0].append((m, F(3, 4) if p != F(3, 4) else F(1, 4), ch, "n0", None))


def ax_strings_full(doc):
    # text fields that fill their whole width (no terminating NUL inside the field)
    doc["header"].update(title="T" * 63 + "x", artist="A" * 31 + "y", creator="C" * 31 + "z", ojm_file="o" * 28 + ".ojm")


def ax_strings(doc):
    doc["header"].update(title="A longer title, with punctuation!", artist="X", creator="", ojm_file="song.ojm", level=(1, 20, 105, 0), song_id=100001, genre=10)


AXES = [
    ("bpm", [("90.5", ax_bpm(90.5)), ("200", ax_bpm(200.0))]),
    (
        "tempo",
        [
            ("m0", ax_tempo([(0, F(0), 60.0)])),
            ("m1", ax_tempo([(1, F(0), 60.0)])),
            ("mid", ax_tempo([(0, F(1, 2), 180.0)])),
            ("two", ax_tempo([(1, F(0), 60.0), (2, F(0), 240.0)])),
            ("three", ax_tempo([(0, F(1, 4), 65.5), (1, F(3, 4), 111.0), (2, F(1, 3), 333.25)])),
            ("after_last", ax_tempo([(5, F(0), 99.0)])),
            ("m1+after", ax_tempo([(1, F(0), 75.0), (6, F(1, 2), 50.0)])),
            ("three-after-last", ax_tempo([(5, F(0), 99.0), (6, F(1, 2), 50.0), (7, F(1, 4), 120.0)])),
            ("all_diffs", ax_tempo([(1, F(0), 60.0)], True)),
            ("interleaved-packages", ax_tempo([(0, F(1, 2), 240.0), (0, F(1, 4), 60.0), (1, F(3, 4), 90.0), (1, F(1, 3), 150.0)], False, True)),
            # two tempo events on one position (own packages): the one that comes later in the file is in force
            ("tie-same-position", ax_tempo([(1, F(1, 2), 150.0), (1, F(1, 2), 90.0)], False, True)),
        ],
    ),
    ("slots", [(str(n), ax_slots(n)) for n in (2, 3, 4, 8, 12, 16)]),
    ("measure", [(str(m), ax_measure(m)) for m in (1, 2, 5)]),
    ("col", [(str(c - 2), ax_col(c)) for c in (4, 8)]),
    ("ln", [("same-package", ax_ln(0, F(7, 8))), ("next-measure", ax_ln(1, F(1, 2))), ("long", ax_ln(3, F(0)))]),
    # difficulties without a single package (the file ends right after the last package: no cover follows)
    ("empty", [("hard", lambda doc: doc["ev"].__setitem__(2, [])), ("normal+hard", lambda doc: (doc["ev"].__setitem__(1, []), doc["ev"].__setitem__(2, []))),
               ("easy", ax_flag("empty_easy"))]),  # (emptied in finalize: other axes edit the first difficulty's first event)
    ("autoplay", [("on", ax_flag("autoplay"))]),
    ("split", [("on", ax_split)]),
    ("order", [("tempo_last", ax_flag("order", "tempo_last")), ("by_channel", ax_flag("order", "by_channel"))]),
    ("strings", [("on", ax_strings), ("full-width", ax_strings_full)]),
]


def el(m, p, ch, kind, v=None, tail=None):
    def f(doc, slot):
        doc["ev"][0].append((m, p, ch, kind, v))
        if tail:
            doc["ev"][0].append((tail[0], tail[1], ch, "n3", None))

    return f


ELEMENTS = [
    ("note-other-col", el(1, F(1, 2), 6, "n0")),
    ("note@m4", el(4, F(0), 3, "n0")),
    ("ln-across", el(2, F(1, 4), 7, "n2", None, (4, F(3, 4)))),
    ("tempo@m2", el(2, F(0), 1, "b", 90.0)),
    ("tempo@m3.5", el(3, F(1, 2), 1, "b", 150.0)),
]


def finalize(doc):
    if doc.get("empty_easy"):
        doc["ev"][0] = []
    for d in doc["ev"]:
        cells = set()
        for m, p, ch, k, v in d:
            if (m, p, ch) in cells and not (ch == 1 and doc.get("tempo_own_packages")):
                # (two tempo events on one position are possible when each has a package of its own: the later one is in force)
                doc["_invalid"] = "two events in one slot"
            cells.add((m, p, ch))
        for ch in range(2, 9):
            open_ = False
            for m, p, c, k, v in sorted((e for e in d if e[2] == ch), key=lambda e: (e[0], e[1])):
                if k == "n2":
                    if open_:
                        doc["_invalid"] = "head inside a long note"
                    open_ = True
                elif k == "n3":
                    if not open_:
                        doc["_invalid"] = "tail without head"
                    open_ = False
                elif open_:
                    doc["_invalid"] = "note inside a long note"
            if open_:
                doc["_invalid"] = "unclosed long note"


def to_packages(doc):
    """Groups the events of each difficulty into packages (one per measure+channel; optionally split in two; ordered)."""
    import math

    diffs = []
    for di, d in enumerate(doc["ev"]):
        groups = {}
        for m, p, ch, k, v in d:
            groups.setdefault((m, ch), []).append((p, k, v))
        pk = []
        for (m, ch), evs in groups.items():
            parts = [evs]
            if doc["split"] and di == 0 and len(evs) >= 2 and all(k == "n0" for _, k, _ in evs):
                parts = [evs[:1], evs[1:]]
            if doc["tempo_own_packages"] and ch == 1:
                parts = [[e] for e in evs]  # one package per tempo event, in the order given (positions interleave)
            for part in parts:
                n = 1
                for p, _, _ in part:
                    n = n * p.denominator // math.gcd(n, p.denominator)
                slots = [None] * n
                for p, k, v in part:
                    slots[int(p * n)] = ("b", v) if k == "b" else ("n", int(k[1]))
                pk.append(dict(measure=m, channel=ch, slots=slots))
        if doc["autoplay"]:
            pk.append(dict(measure=0, channel=9, slots=[("n", 0), None]))
            pk.append(dict(measure=1, channel=12, slots=[None, ("n", 0), None, ("n", 0)]))
        if doc["order"] == "sorted":
            pk.sort(key=lambda x: (x["measure"], x["channel"]))
        elif doc["order"] == "tempo_last":
            pk.sort(key=lambda x: (x["channel"] == 1, x["measure"], x["channel"]))
        else:
            pk.sort(key=lambda x: (x["channel"], x["measure"]))
        diffs.append(pk)
    return dict(header=doc["header"], diffs=diffs)


def bound(tier, seed):
    docs = builder.staircase(AXES, ELEMENTS, STAIRS[tier])
    return dict(stairs=[dict(max_deviations=k, max_depth=d) for k, d in STAIRS[tier]], axes={a: [l for l, _ in v] for a, v in AXES}, elements=[l for l, _ in ELEMENTS], documents=len(docs))


CHUNK = 40
_DOCS = {}


def _docs(tier):
    if tier not in _DOCS:
        _DOCS[tier] = builder.staircase(AXES, ELEMENTS, STAIRS[tier])
    return _DOCS[tier]


GRID_SLOTS = [1, 2, 3, 4, 5, 6, 7, 8, 9, 12, 16, 24, 32, 48, 64, 96, 192, 255, 256, 257, 384, 1000]  # the event count of a package is a 16-bit field


LARGE = dict(quick=[(40, 300), (300, 2500)], thorough=[(40, 300), (300, 2500), (999, 8000)])


def check_large(measures, n, ctx):
    """size: n notes over `measures` measures (8 per measure and channel at most), a tempo event every 3rd measure at an odd
    position, long notes across measures; the three difficulties have n, n/3 and 5 notes."""
    doc = default_doc()
    evs = [[], [], []]
    for d, cnt in enumerate((n, n // 3, 5)):
        per = max(1, -(-cnt // measures))
        step = F(1, 8 if per <= 8 else 32)
        i = 0
        for m in range(measures):
            for k in range(per):
                if i >= cnt:
                    break
                ch = 2 + (i % 7)
                pos = step * ((k * 3 + ch) % int(1 / step))
                if i % 11 == 5 and m + 1 < measures:
                    evs[d] += [(m, pos, ch, "n2", None), (m + 1, pos, ch, "n3", None)]
                else:
                    evs[d].append((m, pos, ch, "n0", None))
                i += 1
        for m in range(0, measures, 3):
            evs[d].append((m, F(3, 8), 1, "b", 90.0 + (m * 13) % 120))
    # one channel cannot hold two events at one position, nor a note inside its own long note: keep the first of each clash
    for d in range(3):
        seen, out, busy = set(), [], {}
        for e in sorted(evs[d], key=lambda e: (e[0], e[1], e[2])):
            key = (e[0], e[1], e[2])
            until = busy.get(e[2])
            if key in seen or (until is not None and (e[0], e[1]) <= until and e[3] != "n3"):
                continue
            seen.add(key)
            if e[3] == "n2":
                busy[e[2]] = (e[0] + 1, e[1])
            if e[3] == "n3":
                busy.pop(e[2], None)
            out.append(e)
        # a head whose tail was dropped (or the reverse) would be ill-formed: drop unmatched heads/tails
        heads = {(e[0] + 1, e[1], e[2]) for e in out if e[3] == "n2"}
        tails = {(e[0], e[1], e[2]) for e in out if e[3] == "n3"}
        out = [e for e in out if not (e[3] == "n2" and (e[0] + 1, e[1], e[2]) not in tails) and not (e[3] == "n3" and (e[0], e[1], e[2]) not in heads)]
        evs[d] = out
    doc["ev"] = evs
    finalize(doc)
    run_doc(doc, dict(devs=[f"large={measures}/{n}"], elems=[]), dict(large=[measures, n]), ctx, ("ojn-large", measures, n))


def roots(tier, seed):
    n = len(_docs(tier))
    return [dict(large=list(a)) for a in LARGE[tier]] + [dict(start=s, stop=min(n, s + CHUNK)) for s in range(0, n, CHUNK)] + [dict(grid=k) for k in GRID_SLOTS]


def check_grid(n, ctx):
    """A note in EVERY slot of a package of n slots, tempo events in every second slot of a tempo package of n slots."""
    doc = default_doc()
    doc["ev"][0] = [(1, F(i, n), 3, "n0", None) for i in range(n)] + [(2, F(i, n), 4, "n0", None) for i in range(0, n, 2)] + [(1, F(i, n), 1, "b", 100.0 + 7 * i) for i in range(0, n, 2)]
    finalize(doc)
    run_doc(doc, dict(devs=[f"grid={n}"], elems=[]), dict(grid=n), ctx, ("ojn-grid", n))


def explore(root, tier, ctx):
    if "large" in root:
        check_large(*root["large"], ctx)
        return
    if "grid" in root:
        check_grid(root["grid"], ctx)
        return
    docs = _docs(tier)
    for i in range(root["start"], root["stop"]):
        devs, seq = docs[i]
        check(devs, seq, ctx)


def replay(case, ctx):
    if "grid" in case:
        check_grid(case["grid"], ctx)
    elif "large" in case:
        check_large(*case["large"], ctx)
    else:
        check(tuple(tuple(x) for x in case["devs"]), tuple(case["seq"]), ctx)


def close(a, b):
    return abs(a - b) <= TOL + 1e-9 * abs(b)


HEADER_FIELDS = ["song_id", "signature", "encode_version", "genre", "bpm", "level", "event_count", "note_count", "measure_count", "package_count", "old_encode_version", "old_song_id", "old_genre", "bmp_size", "old_file_version", "title", "artist", "creator", "ojm_file", "cover_size", "duration", "note_offset", "cover_offset"]


def check(devs, seq, ctx):
    from reamber.o2jam import O2JMapSet

    doc = builder.build(default_doc, AXES, ELEMENTS, devs, seq, finalize)
    lab = builder.label(AXES, ELEMENTS, devs, seq)
    if doc.get("_invalid"):
        ctx.extra["skipped_ill_formed_documents"] += 1
        return
    ctx.depth(len(seq))
    run_doc(doc, lab, dict(devs=[list(d) for d in devs], seq=list(seq)), ctx, ("ojn", devs, seq), nontrivial=bool(devs or seq))


def run_doc(doc, lab, case, ctx, key, nontrivial=True):
    from reamber.o2jam import O2JMapSet

    devs = lab["devs"]
    pdoc = to_packages(doc)
    data = ro.encode(pdoc)
    den = ro.denote(pdoc)
    case = dict(case, label=lab, bytes=data.hex())
    ctx.case()
    ctx.state(key, nontrivial=nontrivial)
    if len(ctx.samples) < 1 and len(devs) == 2:
        ctx.sample(dict(label=lab, packages=[[(p["measure"], p["channel"], len(p["slots"])) for p in d] for d in pdoc["diffs"]]))
    tempo_events = [sum(1 for e in d if e[3] == "b") for d in doc["ev"]]
    site = dict(devs=sorted({a.split("=")[0] for a in lab["devs"]}))
    ctx.transition()
    try:
        ms = O2JMapSet.read(data)
    except Exception as e:
        ctx.check("raises", False, site=dict(site, exc=type(e).__name__, tempo_events_in_first_difficulty=min(tempo_events[0], 2)), case=case, observed=f"{type(e).__name__}: {e}"[:300], expected="a mapset")
        return
    ctx.passed("raises")
    if len(lab["devs"]) <= 1:
        # the file entry point: read_file of a file holding these bytes denotes what read(bytes) gave
        fileio.check_file_entry_points(ctx, "o2j", data, ms, canon.canon_mapset, dict(route="file-entry"), case)
    # header
    h = pdoc["header"]
    exp_h = dict(h, package_count=tuple(len(d) for d in pdoc["diffs"]))
    bad = {}
    for f in HEADER_FIELDS:
        got, exp = getattr(ms, f), exp_h[f]
        if isinstance(exp, float):
            ok = abs(got - ro.f32(exp)) < 1e-12
        elif isinstance(exp, tuple):
            ok = list(got) == list(exp)
        elif f == "old_genre":
            ok = got.rstrip(b"\x00") == exp
        else:
            ok = got == exp
        if not ok:
            bad[f] = (got if not isinstance(got, bytes) else got.hex(), exp if not isinstance(exp, bytes) else exp.hex())
    ctx.check("header.fields", not bad, site=dict(site, fields=sorted(bad)[:3]), case=case, observed={k: v[0] for k, v in bad.items()}, expected={k: v[1] for k, v in bad.items()})
    if not ctx.check("difficulties", len(ms.maps) == 3, site=site, case=case, observed=len(ms.maps), expected=3):
        return
    for di, (m, d) in enumerate(zip(ms.maps, den)):
        ds = dict(site, difficulty=di, tempo_events=min(tempo_events[di], 2))
        got_h = sorted((int(c), float(t)) for t, c in zip(m.hits.offset.tolist(), m.hits.column.tolist()))
        got_l = sorted((int(c), float(t), float(l)) for t, c, l in zip(m.holds.offset.tolist(), m.holds.column.tolist(), m.holds.length.tolist()))
        exp_h2 = [(c, float(t)) for c, t in d["hits"]]
        exp_l = [(c, float(t), float(l)) for c, t, l in d["holds"]]
        if di == 0:
            ctx.outcome((tuple((c, round(t, 4)) for c, t in got_h), tuple((c, round(t, 4), round(l, 4)) for c, t, l in got_l)))
        pairing = len(got_h) == len(exp_h2) and len(got_l) == len(exp_l)
        ctx.check("ln.pairing", pairing, site=ds, case=case, observed=dict(hits=len(got_h), holds=len(got_l)), expected=dict(hits=len(exp_h2), holds=len(exp_l)))
        if pairing:
            ctx.check("column", [c for c, _ in got_h] == [c for c, _ in exp_h2] and [c for c, *_ in got_l] == [c for c, *_ in exp_l], site=ds, case=case, observed=[c for c, _ in got_h] + [c for c, *_ in got_l], expected=[c for c, _ in exp_h2] + [c for c, *_ in exp_l])
            if [c for c, _ in got_h] == [c for c, _ in exp_h2]:
                badt = [(a, b) for a, b in zip(got_h, exp_h2) if not close(a[1], b[1])]
                ctx.check("time.note", not badt, site=ds, case=case, observed=[a for a, _ in badt][:4], expected=[b for _, b in badt][:4])
            if [c for c, *_ in got_l] == [c for c, *_ in exp_l]:
                badt = [(a, b) for a, b in zip(got_l, exp_l) if not close(a[1], b[1])]
                ctx.check("time.note", not badt, site=dict(ds, kind="ln head"), case=case, observed=[a for a, _ in badt][:4], expected=[b for _, b in badt][:4])
                badl = [(a, b) for a, b in zip(got_l, exp_l) if close(a[1], b[1]) and not close(a[1] + a[2], b[1] + b[2])]
                ctx.check("time.ln_end", not badl, site=ds, case=case, observed=[a for a, _ in badl][:4], expected=[b for _, b in badl][:4])
        got_t = sorted((float(t), float(b)) for t, b in zip(m.bpms.offset.tolist(), m.bpms.bpm.tolist()))
        exp_t = sorted((float(t), float(b)) for t, b in d["tempo"])
        okv = sorted(b for _, b in got_t) == sorted(b for _, b in exp_t) or all(any(abs(b - x) < 1e-9 for _, x in got_t) for _, b in exp_t) and len(got_t) == len(exp_t)
        ctx.check("tempo.values", okv, site=ds, case=case, observed=got_t, expected=exp_t)
        if okv:
            missing = [(t, b) for t, b in exp_t if not any(close(u, t) and abs(x - b) < 1e-9 for u, x in got_t)]
            ctx.check("time.tempo", not missing, site=ds, case=case, observed=got_t, expected=exp_t)
