"""C12 — stacking writes through: editing the stack equals editing each list.

Explicit-state BFS over stack-operation histories on real charts (5 games x start states) and mapsets (StepMania, O2Jam): every
sequence of <=2 (quick) / <=3 (thorough, core alphabet) stack operations; after every operation the chart is compared cell by cell
with a plain-Python twin (lists of row dicts) on which the same assignment was applied list by list."""
from __future__ import annotations

import math

from mc import canon, charts, core, starts

ID = "C12"
LARGE = dict(quick="stack of 310 rows x core alphabet", thorough="stacks of 310 and 1110 rows x core / full alphabet")
TITLE = "Stacking writes through: editing the stack equals editing each list"
RULE = (
    "history BFS: a state is a distinct canonical chart (classes, columns, dtypes, labels, cells) reached by a sequence of stack operations; "
    "a transition is one assignment through a real Stacker; non-trivial = the operation selects some but not all rows/lists"
)
ASSUMPTIONS = [
    "cells are compared by value (int 3 == float 3.0, NaN == NaN): the library documents that stacking turns columns into floats",
    "row labels are not part of the property (the stacker relabels rows); C14/C08 look at labels",
    "an operation on a property that no stacked list has may raise; it must then leave the chart unchanged",
    "using an older stacker after a newer one has written (stale stacker) is checked under its own clause (DESIGN 7.5)",
]
TECHNIQUE = "explicit-state BFS over stack-operation histories on the real Map/MapSet stackers, step-compared with a plain-Python twin of the lists"
LEVEL_TEXT = (
    "Charts of osu, Quaver, StepMania, BMS, O2Jam in start states plain / empty hold+extra lists / label gaps / reversed rows / read from a "
    "file, and two-chart StepMania and O2Jam mapsets: every sequence of <=2 operations (quick: full ~75-operation alphabet on osu plain, "
    "a 24-operation core elsewhere) / <=3 operations (thorough: core alphabet; depth 2 with the full alphabet on every start state) over "
    "whole-property assignments (+=, *=, =) on offset/column/length/bpm/metronome and the game's own stack properties, loc-masked "
    "assignments (6 masks x 4 column sets x {+=,=}), stacks restricted by include_types, the same stacker reused for successive "
    "operations, and a stale stacker; after every operation every cell, list length, row order, list class and column set is compared with "
    "the twin."
)
LEVEL_NOTE = "Bounded: charts of <=5 notes, 2 tempo points, 2 SVs; history depth 2/3. Stale-stacker behaviour is a recorded finding."

GAMES = charts.GAMES
T_MASK = 1000.0  # offset threshold of the masks
C_MASK = 1


def base_types():
    from reamber.base.lists import BpmList
    from reamber.base.lists.notes import HitList, HoldList

    from reamber.base.lists.notes import NoteList

    # 'overlap': a list can match two of the requested types - it is still stacked once
    return dict(hits=(HitList,), notes=(HitList, HoldList), bpms=(BpmList,), overlap=(NoteList, HitList, BpmList, BpmList))


def full_alphabet(game):
    ops = []
    props = ["offset", "column", "length", "bpm", "metronome"]
    if game == "osu":
        props += ["volume", "hitsound_set"]
    for p in props:
        for o, a in (("+", 5), ("*", 2), ("=", 7), ("*", 1.5)):
            ops.append(("prop", p, o, a))
    if game == "osu":
        ops.append(("prop", "hitsound_file", "=", "f.wav"))
    if game == "bms":
        ops.append(("prop", "sample", "=", b"x"))
    for mn in ("off>", "col==", "both", "haslen", "none", "all"):
        for cols in (("column",), ("offset",), ("offset", "column"), ("length",)):
            for o, a in (("+", 5), ("=", 7)):
                ops.append(("loc", mn, cols, o, a))
        # non-integral results (integer-typed columns of charts read from files must not truncate them)
        ops.append(("loc", mn, ("offset", "length"), "*", 1.5))
        ops.append(("loc", mn, ("offset",), "+", 0.25))
    # array-valued assignments (row i gets +i): position-dependent, on restricted stacks with disjoint and overlapping types
    for name in ("notes", "overlap"):
        ops.append(("inc", name, "offset", "arange", 0))
    ops.append(("inc", "overlap", "offset", "+", 5))
    for name in ("hits", "notes", "bpms"):
        ops.append(("inc", name, "offset", "+", 5))
        if name != "bpms":
            ops.append(("inc", name, "column", "=", 3))
        else:
            ops.append(("inc", name, "bpm", "*", 2))
    return ops


def core_alphabet(game):
    ops = [
        ("prop", "offset", "+", 5),
        ("prop", "offset", "*", 2),
        ("prop", "column", "=", 7),
        ("prop", "column", "+", 5),
        ("prop", "length", "*", 2),
        ("prop", "length", "=", 7),
        ("prop", "bpm", "*", 2),
        ("prop", "metronome", "=", 7),
        ("loc", "off>", ("column",), "+", 5),
        ("loc", "off>", ("offset", "column"), "=", 7),
        ("loc", "col==", ("offset",), "+", 5),
        ("loc", "col==", ("column",), "=", 7),
        ("loc", "both", ("offset", "column"), "+", 5),
        ("loc", "haslen", ("length",), "+", 5),
        ("loc", "haslen", ("column",), "=", 7),
        ("loc", "none", ("offset",), "=", 7),
        ("loc", "all", ("length",), "=", 7),
        ("loc", "all", ("offset",), "+", 5),
        ("loc", "off>", ("offset", "length"), "*", 1.5),
        ("loc", "all", ("offset",), "+", 0.25),
        ("prop", "offset", "*", 1.5),
        ("inc", "overlap", "offset", "arange", 0),
        ("inc", "hits", "offset", "+", 5),
        ("inc", "hits", "column", "=", 3),
        ("inc", "notes", "offset", "+", 5),
        ("inc", "notes", "column", "=", 3),
        ("inc", "bpms", "offset", "+", 5),
        ("inc", "bpms", "bpm", "*", 2),
    ]
    if game == "osu":
        ops += [("prop", "volume", "+", 5), ("prop", "hitsound_file", "=", "f.wav")]
    if game == "bms":
        ops += [("prop", "sample", "=", b"x")]
    return ops


def set_alphabet():
    return [("prop", p, o, a) for p in ("offset", "column", "length", "bpm") for o, a in (("+", 5), ("*", 2), ("=", 7))]


def plan(tier):
    """[(kind, game, variant, alphabet name, depth, reuse)]"""
    out = []
    for g in GAMES:
        for v in starts.variants(g):
            if tier == "quick":
                if g == "osu" and v == "plain":
                    out.append(("map", g, v, "full", 2))
                else:
                    out.append(("map", g, v, "full", 1))
                    if v in ("plain", "gaps", "read") and (g != "osu"):
                        out.append(("map", g, v, "core", 2))
            else:
                out.append(("map", g, v, "full", 2))
                if v in ("plain", "gaps", "read"):
                    out.append(("map", g, v, "core", 3))
    for g in ("sm", "o2j"):
        out.append(("set", g, "plain", "set", 2 if tier == "quick" else 3))
    # size: a stack of more than 256 rows (thorough: more than 1024)
    for g in GAMES:
        out.append(("map", g, "large", "core", 1))
        if tier == "thorough":
            out.append(("map", g, "large1100", "full", 1))
    return out


def bound(tier, seed):
    return dict(
        plan=[dict(kind=k, game=g, start=v, alphabet=a, depth=d) for k, g, v, a, d in plan(tier)],
        alphabet_sizes=dict(full_osu=len(full_alphabet("osu")), full_other=len(full_alphabet("sm")), core=len(core_alphabet("sm")), mapset=len(set_alphabet())),
        masks=["offset>1000", "column==1", "offset>1000 & column==1", "length.notna()", "none", "all"],
        reuse="every depth>=2 sequence is run with a fresh stacker per operation and, where both operations use the unrestricted stack, with one stacker reused",
    )


def alphabet(name, game):
    return dict(full=full_alphabet, core=core_alphabet)[name](game) if name != "set" else set_alphabet()


def roots(tier, seed):
    rs = []
    for pi, (kind, g, v, an, depth) in enumerate(plan(tier)):
        n = len(alphabet(an, g))
        if depth == 1:
            rs.append(dict(plan=pi, first=None))
        else:
            for i in range(n):
                rs.append(dict(plan=pi, first=i))
    rs.append(dict(plan=-1, first=None))  # stale stacker probes
    return rs


# --------------------------------------------------------------------------------------------------- twin
def twin_of(m):
    return {k: [{c: canon.val(v) for c, v in r.items()} for r in l.df.to_dict("records")] for k, l in m.objs.items()}


def has(r, c):
    return c in r


def mask_pred(mn):
    def num(r, c):
        v = r.get(c, canon.NAN)
        return v if isinstance(v, (int, float)) and not isinstance(v, bool) else None

    if mn == "off>":
        return lambda r: num(r, "offset") is not None and num(r, "offset") > T_MASK
    if mn == "col==":
        return lambda r: num(r, "column") is not None and num(r, "column") == C_MASK
    if mn == "both":
        return lambda r: num(r, "offset") is not None and num(r, "offset") > T_MASK and num(r, "column") is not None and num(r, "column") == C_MASK
    if mn == "haslen":
        return lambda r: num(r, "length") is not None
    if mn == "none":
        return lambda r: False
    return lambda r: True


def lib_mask(s, mn):
    if mn == "off>":
        return s.offset > T_MASK
    if mn == "col==":
        return s.column == C_MASK
    if mn == "both":
        return (s.offset > T_MASK) & (s.column == C_MASK)
    if mn == "haslen":
        return s.length.notna()
    if mn == "none":
        return s.offset < -1e18
    return s.offset > -1e18


def apply_val(old, o, a):
    if old == canon.NAN:
        return a if o == "=" else old
    if o == "+":
        return canon.val(old + a)
    if o == "*":
        return canon.val(old * a)
    return canon.val(a)


def twin_apply(m, tw, op, mask=None):
    """Applies op to the twin, list by list. `mask` (loc operations): booleans over the rows of all lists in stacking order; when
    None the mask is the plain predicate evaluated on the twin rows. Returns (applicable, selective)."""
    kind = op[0]
    touched = total = 0
    if kind == "prop":
        _, p, o, a = op
        anyhas = False
        for k, rows in tw.items():
            if p in _cols(m, k):
                anyhas = True
            for r in rows:
                total += 1
                if p in r:
                    r[p] = apply_val(r[p], o, a)
                    touched += 1
        return anyhas, 0 < touched < total
    if kind == "loc":
        _, mn, cols, o, a = op
        pred = mask_pred(mn)
        pos = 0
        for k, rows in tw.items():
            for r in rows:
                total += 1
                sel = pred(r) if mask is None else mask[pos]
                pos += 1
                if sel:
                    hit = False
                    for c in cols:
                        if c in r:
                            r[c] = apply_val(r[c], o, a)
                            hit = True
                    touched += hit
        return True, 0 < touched < total
    _, name, p, o, a = op
    inc = base_types()[name]
    anyhas = False
    pos = 0
    for k, l in m.objs.items():
        if isinstance(l, inc):
            if p in _cols(m, k):
                anyhas = True
            for r in tw[k]:
                total += 1
                if p in r:
                    r[p] = apply_val(r[p], "+", pos) if o == "arange" else apply_val(r[p], o, a)
                    touched += 1
                pos += 1
        else:
            total += len(tw[k])
    return anyhas, 0 < touched < total


def pred_mask(tw, mn):
    pred = mask_pred(mn)
    return [bool(pred(r)) for rows in tw.values() for r in rows]


def _cols(m, k):
    return list(m.objs[k].df.columns)


def lib_apply(m, op, stacker=None, mask=None, loc=None):
    kind = op[0]
    if kind == "prop":
        _, p, o, a = op
        s = stacker if stacker is not None else m.stack()
        if o == "+":
            setattr(s, p, getattr(s, p) + a) if hasattr(type(s), p) else s.__setitem__(p, s[p] + a)
        elif o == "*":
            setattr(s, p, getattr(s, p) * a) if hasattr(type(s), p) else s.__setitem__(p, s[p] * a)
        else:
            setattr(s, p, a) if hasattr(type(s), p) else s.__setitem__(p, a)
        return s
    if kind == "loc":
        _, mn, cols, o, a = op
        s = stacker if stacker is not None else m.stack()
        key = list(cols) if len(cols) > 1 else cols[0]
        mask = lib_mask(s, mn) if mask is None else mask
        ix = s.loc if loc is None else loc  # (an indexer the caller took earlier and kept)
        if o == "+":
            ix[mask, key] += a
        elif o == "*":
            ix[mask, key] *= a
        else:
            ix[mask, key] = a
        return s
    _, name, p, o, a = op
    s = m.stack(base_types()[name])
    if o == "arange":
        import numpy as np

        col = getattr(s, p)
        setattr(s, p, col + np.arange(len(col)))
    elif o == "+":
        setattr(s, p, getattr(s, p) + a)
    elif o == "*":
        setattr(s, p, getattr(s, p) * a)
    else:
        setattr(s, p, a)
    return None


def compare(ctx, m, tw, classes, site, case):
    """All 'nothing else changed / selected changed' clauses, list by list against the twin."""
    ok = True
    ok &= ctx.check("list_set", list(m.objs) == list(tw), site=site, case=case, observed=list(m.objs), expected=list(tw))
    for k, l in m.objs.items():
        if k not in tw:
            continue
        ls = dict(site, list=k)
        ok &= ctx.check("list_types", type(l).__qualname__ == classes[k][0], site=ls, case=case, observed=type(l).__qualname__, expected=classes[k][0])
        ok &= ctx.check("columns", list(l.df.columns) == classes[k][1], site=ls, case=case, observed=list(l.df.columns), expected=classes[k][1])
        if not ctx.check("lengths", len(l) == len(tw[k]), site=ls, case=case, observed=len(l), expected=len(tw[k])):
            ok = False
            continue
        rows = [{c: canon.val(v) for c, v in r.items()} for r in l.df.to_dict("records")]
        diffs = []
        for i, (r, t) in enumerate(zip(rows, tw[k])):
            for c in t:
                if c in r and not veq(r[c], t[c]):
                    diffs.append((i, c, r[c], t[c]))
        if diffs:
            # row order or cell values? if the multiset of rows matches it is an order problem
            same_multiset = sorted(map(_rk, rows)) == sorted(map(_rk, tw[k]))
            cl = "row_order" if same_multiset else "cells"
            cols = sorted({d[1] for d in diffs})
            ctx.check(cl, False, site=dict(ls, cols=cols), case=case, observed=diffs[:6], expected="value of the twin (row, column, got, want)")
            ok = False
        else:
            ctx.passed("cells")
            ctx.passed("row_order")
    return ok


def _rk(r):
    return repr(sorted((k, _norm(v)) for k, v in r.items()))


def _norm(v):
    return round(v, 9) if isinstance(v, float) else v


def veq(a, b):
    if isinstance(a, float) and isinstance(b, float):
        return a == b or abs(a - b) <= 1e-9 * max(abs(a), abs(b))
    return a == b


def classes_of(m):
    return {k: (type(l).__qualname__, list(l.df.columns)) for k, l in m.objs.items()}


# --------------------------------------------------------------------------------------------------- exploration
def explore(root, tier, ctx):
    if root["plan"] == -1:
        stale_probes(ctx)
        return
    kind, g, v, an, depth = plan(tier)[root["plan"]]
    ops = alphabet(an, g)
    if kind == "set":
        explore_set(g, ops, depth, root["first"], ctx)
        return
    firsts = range(len(ops)) if root["first"] is None else [root["first"]]
    seen = set()
    for i in firsts:
        run_seq(g, v, ops, [i], ctx, seen)
        if depth >= 2:
            for j in range(len(ops)):
                run_seq(g, v, ops, [i, j], ctx, seen)
                if ops[i][0] != "inc" and ops[j][0] != "inc":
                    run_seq(g, v, ops, [i, j], ctx, seen, reuse=True)
                    if ops[i][0] == "prop" and ops[j][0] == "loc":
                        run_seq(g, v, ops, [i, j], ctx, seen, reuse="kept_loc")
                if depth >= 3:
                    for k in range(len(ops)):
                        run_seq(g, v, ops, [i, j, k], ctx, seen)


def run_seq(g, v, ops, idx, ctx, seen, reuse=False):
    """Runs the sequence on a fresh chart; oracle after the last operation (prefixes are checked by their own run).
    A prefix state already seen in this shard with the same remaining suffix is skipped (canonical-state deduplication)."""
    m = starts.make(g, v)
    tw = twin_of(m)
    classes = classes_of(m)
    case = dict(kind="map", game=g, start=v, ops=[list(ops[i]) for i in idx], reuse=reuse)
    ctx.depth(len(idx))
    stacker = None
    applicable = True
    kept = None
    if reuse == "kept_loc":
        # the caller takes `loc = s.loc` once, BEFORE the first operation, and uses that same indexer for the later ones
        stacker = m.stack()
        kept = stacker.loc
    for n, i in enumerate(idx):
        op = ops[i]
        last = n == len(idx) - 1
        site = dict(game=g, op=op[0], reuse=reuse)
        before = canon.canon_map(m) if last else None
        tw_before = None
        ctx.transition()
        lmask = None
        try:
            if op[0] == "loc":
                # the selection is the boolean series the caller computes from the stack's own getters
                stacker = stacker if (reuse and stacker is not None) else m.stack()
                lmask = lib_mask(stacker, op[1])
                lm = [bool(x) for x in lmask.tolist()]
                pm = pred_mask(tw, op[1])
                if not (reuse and n > 0):
                    # a fresh stacker must show the lists' own values: its mask equals the predicate on the rows
                    if not ctx.check("view.mask", lm == pm, site=dict(site, mask=op[1]), case=case, observed=lm, expected=pm):
                        return
                app, selective = twin_apply(m, tw, op, lm)
                lib_apply(m, op, stacker, lmask, loc=kept)
            else:
                app, selective = twin_apply(m, tw, op)
                stacker = lib_apply(m, op, stacker if reuse else None)
            if not reuse:
                stacker = None
        except Exception as e:
            if op[0] == "loc" and lmask is None:
                app = True
            if not app:
                # property absent from every stacked list: raising is acceptable, but the chart must be unchanged
                if last:
                    ctx.check("absent.unchanged", canon.canon_map(m) == before, site=site, case=case, observed="chart changed by a failed assignment", expected="unchanged")
                return
            if last:
                ctx.check("raises", False, site=dict(site, exc=type(e).__name__, prop=str(op[1] if op[0] == "prop" else op[2])), case=case, observed=f"{type(e).__name__}: {e}"[:300], expected="assignment applied")
            return
        if not app:
            # nothing to select: twin unchanged, chart must equal it
            pass
        if last:
            ctx.case()
            ctx.passed("raises")
            key = canon.canon_map(m)
            ctx.state(key, nontrivial=selective)
            ctx.outcome(core.h64(key))
            compare(ctx, m, tw, classes, site, case)
            if selective and len(idx) == 2 and len(ctx.samples) < 1:
                ctx.sample(case)


def explore_set(g, ops, depth, first, ctx):
    for j in [None] + list(range(len(ops))):
        seqs = [[first]] if j is None else [[first, j]]
        if depth >= 3 and j is not None:
            seqs += [[first, j, k] for k in range(len(ops))]
        for idx in seqs:
            for mode in ("frame", "scalar"):
                run_set(g, ops, idx, mode, ctx)
                if len(idx) <= 2:
                    # three charts, the one with the empty lists FIRST (rows of the set-level frame must stay paired with their charts)
                    run_set(g, ops, idx, mode, ctx, arrangement="empty-first")


def run_set(g, ops, idx, mode, ctx, arrangement="plain"):
    """Mapset stack: `ms.stack().p op= a`. mode 'frame' uses the DataFrame returned by the getter (+=, *=); '=' assigns a scalar."""
    ms = starts.make_set(g)
    if arrangement == "empty-first":
        ms.maps = [ms.maps[1], ms.maps[0], starts.make(g, "gaps")]
    tws = [twin_of(m) for m in ms.maps]
    cls = [classes_of(m) for m in ms.maps]
    case = dict(kind="set", game=g, ops=[list(ops[i]) for i in idx], mode=mode, arrangement=arrangement)
    ctx.depth(len(idx))
    for n, i in enumerate(idx):
        _, p, o, a = ops[i]
        if mode == "scalar" and o != "=":
            # also exercise 'p = p <op> a' spelled through __getitem__/__setitem__
            pass
        last = n == len(idx) - 1
        site = dict(game=g, op="set." + ("scalar" if o == "=" else "frame"), mode=mode)
        app = False
        for m, tw in zip(ms.maps, tws):
            x, _ = twin_apply(m, tw, ("prop", p, o, a))
            app |= x
        ctx.transition()
        try:
            s = ms.stack()
            if mode == "frame":
                if o == "+":
                    setattr(s, p, getattr(s, p) + a)
                elif o == "*":
                    setattr(s, p, getattr(s, p) * a)
                else:
                    setattr(s, p, a)
            else:
                if o == "+":
                    s[p] = s[p] + a
                elif o == "*":
                    s[p] = s[p] * a
                else:
                    s[p] = a
        except Exception as e:
            if last and app:
                ctx.check("raises", False, site=dict(site, exc=type(e).__name__, prop=p), case=case, observed=f"{type(e).__name__}: {e}"[:300], expected="assignment applied")
            return
        if last:
            ctx.case()
            ctx.passed("raises")
            key = canon.canon_mapset(ms)
            ctx.state(key, nontrivial=True)
            ctx.outcome(core.h64(key))
            ctx.check("set.cardinality", len(ms.maps) == len(tws), site=site, case=case, observed=len(ms.maps), expected=len(tws))
            for ci, (m, tw, c) in enumerate(zip(ms.maps, tws, cls)):
                compare(ctx, m, tw, c, dict(site, chart=ci), case)


def stale_probes(ctx):
    """An operation through an older stacker after a newer stacker has written."""
    for g in GAMES:
        ops = core_alphabet(g)
        for i in (0, 2, 8):
            for j in (3, 6, 10):
                m = starts.make(g, "plain")
                tw = twin_of(m)
                classes = classes_of(m)
                case = dict(kind="stale", game=g, ops=[list(ops[i]), list(ops[j])])
                s1 = m.stack()
                s2 = m.stack()
                twin_apply(m, tw, ops[i])
                twin_apply(m, tw, ops[j])
                ctx.transition(2)
                try:
                    lib_apply(m, ops[i], s2)
                    lib_apply(m, ops[j], s1)
                except Exception as e:
                    ctx.check("raises", False, site=dict(game=g, op="stale", exc=type(e).__name__, prop=""), case=case, observed=str(e)[:200], expected="assignment applied")
                    continue
                ctx.case()
                ctx.state(canon.canon_map(m), nontrivial=True)
                compare(ctx, m, tw, classes, dict(game=g, op="stale", reuse=False, stale_stacker=True), case)


def replay(case, ctx):
    if case["kind"] == "map":
        ops = [tuple(tuple(x) if isinstance(x, list) else x for x in o) for o in case["ops"]]
        run_seq(case["game"], case["start"], ops, list(range(len(ops))), ctx, set(), reuse=case.get("reuse", False))
    elif case["kind"] == "set":
        ops = [tuple(o) for o in case["ops"]]
        run_set(case["game"], ops, list(range(len(ops))), case["mode"], ctx, arrangement=case.get("arrangement", "plain"))
    else:
        stale_probes(ctx)
