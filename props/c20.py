"""C20 — pattern grouping partitions the notes; combinations are exactly the allowed ones.

Part A (grouping): every multiset of <=3/4 notes over 4 columns x 4 times x {hit, hold} through Pattern.from_note_lists(...).group
with every (v_window, h_window, avoid_jack, include_tails) combination; clauses partition / v_window / h_window / no_repeat_column.
Part B (combinations): every sequence of 2..3/4 groups (each a non-empty subset of <=2 objects of a 5-object alphabet mixing columns
and types), produced by the real group(), through PtnCombo.combinations with every filter of a menu (chord/combo/type filters x
options x exclude, make_size2, the two templates); oracle = Cartesian product over n consecutive groups filtered by plain-Python
predicates; the option expansions are compared with the documented expansions as sets."""
from __future__ import annotations

import itertools

import numpy as np

ID = "C20"
TITLE = "Pattern grouping partitions the notes; combinations are exactly the allowed ones"
RULE = (
    "function enumeration: a state is a distinct (note multiset, v, h, jack, tails) [part A] or (group sequence, size, filter) [part B]; "
    "a transition is one group()/combinations()/create() call; non-trivial = >=2 objects [A] or a filter that rejects some but not all [B]"
)
ASSUMPTIONS = [
    "the group's first note is taken to be any member with the group's minimal time (weakest reading)",
    "AND_LOWER/AND_HIGHER are exercised with a single base row (their meaning for several rows is not documented)",
    "combinations are compared as multisets of object sequences over all chunks (the per-chunk packaging is not part of the property)",
]
TECHNIQUE = "exhaustive finite-domain enumeration of Pattern.group and PtnCombo.combinations/filters on the real code against plain-Python predicates and a reference Cartesian product"
LEVEL_TEXT = (
    "A: every multiset of <=3 (quick) / <=4 (thorough) notes over columns 0..3 x times {0,50,100,200} x {hit, hold 100} through "
    "from_note_lists(include_tails T/F).group(v in {0,50,100,1000}, h in {None,0,1,2}, avoid_jack T/F). B: every sequence of 2..3 (quick) / "
    "2..4 (thorough) groups drawn from the 15 non-empty subsets (<=2 objects) of a 5-object alphabet, grouped by the real group(), through "
    "combinations(size 2..4) with ~100 filters per size (chord-size rows x {0,ANY_ORDER,AND_LOWER,AND_HIGHER,ANY|LOWER} x exclude; column "
    "rows x {0,REPEAT,HMIRROR,VMIRROR,all} x exclude; type rows x {0,ANY_ORDER,MIRROR} x exclude; pairs/triples of filters; make_size2; "
    "template_jacks, template_chord_stream); all option expansions for keys 4 and 7 against the documented expansions."
)
LEVEL_NOTE = "Bounded palettes (4 columns, 4 times, groups of <=2 objects); grouping maximality is not claimed by the property and not checked."

COLS = (0, 1, 2, 3)
TIMES = (0, 50, 100, 200)
KIND = (None, 100)
ATOMS_A = [(c, t, k) for c in COLS for t in TIMES for k in KIND]
VS = (0, 50, 100, 1000)
HS = (None, 0, 1, 2)
KEYS = 4

# part B object alphabet: (column, type tag)
OBJ = [(0, "hit"), (1, "hit"), (3, "hit"), (1, "hold"), (2, "tail")]
GROUPS_B = [g for n in (1, 2) for g in itertools.combinations(range(len(OBJ)), n)]


# second use with another key count: 7-key objects (columns 4..6 in use), run after 4-key work in the same process
OBJ7 = [(0, "hit"), (5, "hit"), (1, "hit"), (6, "hit"), (4, "hold")]
GROUPS_7 = [g for n in (1, 2) for g in itertools.combinations(range(len(OBJ7)), n)]


def large_seq(n):
    """n groups, cycling through the group alphabet of part B with a stride that visits every group"""
    return [(i * 7 + 3) % len(GROUPS_B) for i in range(n)]


def large_notes(n):
    """n notes over 4 columns, 50 ms apart with a chord every 5th and a hold every 7th (ties and repeated columns included)"""
    out = []
    for i in range(n):
        out.append(((i * 3) % 4, 50 * (i - (i % 5 == 4)), 100 if i % 7 == 3 else None))
    return out


def bound(tier, seed):
    return dict(
        A=dict(max_notes=3 if tier == "quick" else 4, columns=list(COLS), times=list(TIMES), kinds=["hit", "hold 100"], v=list(VS), h=[str(h) for h in HS], avoid_jack=[True, False], include_tails=[True, False]),
        B=dict(group_sequences="2..3 groups" if tier == "quick" else "2..4 groups", groups=len(GROUPS_B), objects=[list(o) for o in OBJ], sizes=[2, 3] if tier == "quick" else [2, 3, 4], keys=KEYS),
        expansions=dict(keys=[4, 7]),
    )


def multisets_a(n):
    out = []
    for k in range(1, n + 1):
        out.extend(itertools.combinations_with_replacement(range(len(ATOMS_A)), k))
    return out


def seqs_b(tier):
    out = []
    for n in (2, 3) if tier == "quick" else (2, 3, 4):
        out.extend(itertools.product(range(len(GROUPS_B)), repeat=n))
    return out


CH_A, CH_B = 120, 60


def roots(tier, seed):
    na = len(multisets_a(3 if tier == "quick" else 4))
    nb = len(seqs_b(tier))
    rs = [dict(part="E")]
    rs += [dict(part="A", start=s, stop=min(na, s + CH_A)) for s in range(0, na, CH_A)]
    rs += [dict(part="B", start=s, stop=min(nb, s + CH_B)) for s in range(0, nb, CH_B)]
    rs += [dict(part="B7", first=g) for g in range(len(GROUPS_7))]
    # size: sequences of hundreds / thousands of groups, note sets of hundreds of notes
    rs += [dict(part="BL", n=n) for n in ((40, 1100) if tier == "quick" else (17, 40, 1100, 3000))]
    rs += [dict(part="AL", n=n) for n in ((300,) if tier == "quick" else (40, 300, 1500))]
    return rs


_CACHE = {}


def explore(root, tier, ctx):
    if root["part"] == "E":
        for keys in (4, 7):
            check_expansions(keys, ctx)
        return
    if root["part"] == "B7":
        check_combos7(root["first"], ctx)
        return
    if root["part"] == "BL":
        check_combos(large_seq(root["n"]), tier, ctx)
        return
    if root["part"] == "AL":
        notes = large_notes(root["n"])
        pat = make_pattern(notes, True, ctx)
        for v, h, aj in ((0, None, False), (50, 1, True), (100, None, True), (1000, 2, False)):
            check_group(notes, True, v, h, aj, ctx, pat)
        return
    if root["part"] == "A":
        key = ("A", tier)
        if key not in _CACHE:
            _CACHE[key] = multisets_a(3 if tier == "quick" else 4)
        for i in range(root["start"], root["stop"]):
            notes = [ATOMS_A[a] for a in _CACHE[key][i]]
            has_hold = any(k is not None for _, _, k in notes)
            for tails in (True, False) if has_hold else (True,):
                pat = make_pattern(notes, tails, ctx)
                for v in VS:
                    for h in HS:
                        for aj in (True, False):
                            check_group(notes, tails, v, h, aj, ctx, pat)
                # the jack switch given as a truthy value that is not the Python True (a numpy bool, the int 1)
                for aj in ("np_true", "int1"):
                    check_group(notes, tails, 50, 1, aj, ctx, pat)
                    check_group(notes, tails, 1000, None, aj, ctx, pat)
        return
    key = ("B", tier)
    if key not in _CACHE:
        _CACHE[key] = seqs_b(tier)
    for i in range(root["start"], root["stop"]):
        check_combos(list(_CACHE[key][i]), tier, ctx)


def replay(case, ctx):
    if case["part"] == "A":
        check_group([tuple(n) for n in case["notes"]], case["tails"], case["v"], case["h"], case["aj"], ctx)
    elif case["part"] == "B":
        check_combos(case["seq"], case.get("tier", "thorough"), ctx, only=case.get("filter"))
    elif case["part"] == "B7":
        check_combos7(case["first"], ctx)
    else:
        check_expansions(case["keys"], ctx)


# ------------------------------------------------------------------------------------------------ part A
def make_pattern(notes, tails, ctx):
    """One real from_note_lists call per (notes, tails); group() only reads the pattern."""
    from reamber.algorithms.pattern import Pattern
    from reamber.osu import OsuHit, OsuHold
    from reamber.osu.lists.notes import OsuHitList, OsuHoldList

    hits = OsuHitList([OsuHit(float(t), c) for c, t, k in notes if k is None])
    holds = OsuHoldList([OsuHold(float(t), c, float(k)) for c, t, k in notes if k is not None])
    ctx.transition()
    try:
        return Pattern.from_note_lists([hits, holds], include_tails=tails)
    except Exception as e:
        return e


def check_group(notes, tails, v, h, aj, ctx, pat=None):
    case = dict(part="A", notes=[list(n) for n in notes], tails=tails, v=v, h=h, aj=aj)
    if pat is None:
        pat = make_pattern(notes, tails, ctx)
    ctx.state(("A", tuple(notes), tails, v, h, aj), nontrivial=len(notes) >= 2)
    if len(notes) == 3 and len(ctx.samples) < 1:
        ctx.sample(case)
    ctx.transition()
    ctx.case()
    site = dict(part="A")
    try:
        if isinstance(pat, Exception):
            raise pat
        before = pat.df.copy()
        import numpy as np

        aj_arg = np.bool_(True) if aj == "np_true" else 1 if aj == "int1" else aj
        aj = bool(aj_arg)
        groups = pat.group(v, h, aj_arg)
        if not before.equals(pat.df):
            pat = None  # group() changed the pattern: the shared object cannot be trusted, rebuild for the next call
            raise RuntimeError("Pattern.group modified the pattern it was called on")
    except Exception as e:
        ctx.check("group.raises", False, site=dict(site, exc=type(e).__name__), case=case, observed=f"{type(e).__name__}: {e}"[:300], expected="a list of groups")
        return
    ctx.passed("group.raises")
    want = []
    for c, t, k in notes:
        want.append((c, float(t), "hit" if k is None else "hold"))
        if k is not None and tails:
            want.append((c, float(t + k), "tail"))
    got = [(int(r["column"]), float(r["offset"]), tag(r["type"])) for g in groups for r in g]
    ctx.outcome(tuple(tuple((int(r["column"]), float(r["offset"])) for r in g) for g in groups))
    ctx.check("partition", sorted(got) == sorted(want), site=site, case=case, observed=sorted(got), expected=sorted(want))
    ctx.check("group.nonempty", all(len(g) > 0 for g in groups), site=site, case=case, observed=[len(g) for g in groups], expected="no empty group")
    badv, badh, badj = [], [], []
    for g in groups:
        if len(g) == 0:
            continue
        offs = [float(r["offset"]) for r in g]
        cs = [int(r["column"]) for r in g]
        t0 = min(offs)
        if any(not (t0 <= o <= t0 + v) for o in offs):
            badv.append(list(zip(cs, offs)))
        if h is not None:
            firsts = [c for c, o in zip(cs, offs) if o == t0]
            if not any(all(abs(c - f) <= h for c in cs) for f in firsts):
                badh.append(list(zip(cs, offs)))
        if aj and len(set(cs)) != len(cs):
            badj.append(list(zip(cs, offs)))
    ctx.check("v_window", not badv, site=site, case=case, observed=badv, expected=f"all times within [first, first+{v}]")
    ctx.check("h_window", not badh, site=site, case=case, observed=badh, expected=f"all columns within {h} of the first note")
    ctx.check("no_repeat_column", not badj, site=site, case=case, observed=badj, expected="distinct columns in every group")


def tag(t):
    from reamber.base.Hold import Hold, HoldTail

    if t is HoldTail or (isinstance(t, type) and issubclass(t, HoldTail)):
        return "tail"
    if isinstance(t, type) and issubclass(t, Hold):
        return "hold"
    return "hit"


# ------------------------------------------------------------------------------------------------ reference option expansions
def ref_combo(base, keys, rep, hm, vm):
    rows = {tuple(b) for b in base}
    if rep:
        out = set()
        for r in rows:
            for d in range(-min(r), keys - max(r)):
                out.add(tuple(x + d for x in r))
        rows = out
    if hm:
        rows |= {tuple(keys - 1 - x for x in r) for r in rows}
    if vm:
        rows |= {tuple(reversed(r)) for r in rows}
    return rows


def ref_chord(base, keys, anyo, lower, higher):
    rows = {tuple(b) for b in base}
    b0 = tuple(base[0])
    if higher:
        rows |= set(itertools.product(*[range(x, keys + 1) for x in b0]))
    if lower:
        mx = [max(r[i] for r in rows) for i in range(len(b0))]
        rows |= set(itertools.product(*[range(1, x + 1) for x in mx]))
    if anyo:
        rows = {p for r in rows for p in itertools.permutations(r)}
    return rows


def ref_type(base, anyo, mirror):
    rows = [tuple(b) for b in base]
    if anyo:
        rows = [p for r in rows for p in itertools.permutations(r)]
    elif mirror:
        rows = rows + [tuple(reversed(r)) for r in rows]
    return rows


def check_expansions(keys, ctx):
    from reamber.algorithms.pattern.filters import PtnFilterChord, PtnFilterCombo

    site = dict(part="E", keys=keys)
    case0 = dict(part="E", keys=keys)
    O = PtnFilterCombo.Option
    bases = [[[0, 0]], [[0, 1]], [[1, 0]], [[0, 2]], [[1, 3]], [[0, 1, 2]], [[0, 0, 0]], [[2, 0, 1]], [[0, 1], [2, 0]], [[0, keys - 1]]]
    for base in bases:
        for rep, hm, vm in itertools.product((0, 1), repeat=3):
            opt = rep * O.REPEAT | hm * O.HMIRROR | vm * O.VMIRROR
            ctx.transition()
            ctx.state(("E", "combo", keys, repr(base), opt), nontrivial=bool(opt))
            try:
                f = PtnFilterCombo.create(base, keys=keys, options=opt)
                got = {tuple(int(x) for x in r) for r in f.ar}
            except Exception as e:
                ctx.check("options.expansion", False, site=dict(site, filter="combo", exc=type(e).__name__), case=dict(case0, base=base, opt=opt), observed=str(e)[:200], expected="a filter")
                continue
            exp = ref_combo(base, keys, rep, hm, vm)
            ctx.check("options.expansion", got == exp, site=dict(site, filter="combo", options=opt), case=dict(case0, base=base, opt=opt), observed=sorted(got), expected=sorted(exp))
            ctx.outcome(sorted(got))
    C = PtnFilterChord.Option
    cb = [[[1, 1]], [[2, 1]], [[1, 2]], [[2, 2]], [[3, 1]], [[2, 2, 1]], [[1, 1, 1]], [[3, 2, 1]]]
    for base in cb:
        for anyo, lower, higher in itertools.product((0, 1), repeat=3):
            opt = anyo * C.ANY_ORDER | lower * C.AND_LOWER | higher * C.AND_HIGHER
            ctx.transition()
            ctx.state(("E", "chord", keys, repr(base), opt), nontrivial=bool(opt))
            try:
                f = PtnFilterChord.create(base, keys=keys, options=opt)
                got = {tuple(int(x) for x in r) for r in f.ar}
            except Exception as e:
                ctx.check("options.expansion", False, site=dict(site, filter="chord", exc=type(e).__name__), case=dict(case0, base=base, opt=opt), observed=str(e)[:200], expected="a filter")
                continue
            exp = ref_chord(base, keys, anyo, lower, higher)
            ctx.check("options.expansion", got == exp, site=dict(site, filter="chord", options=opt), case=dict(case0, base=base, opt=opt), observed=sorted(got), expected=sorted(exp))
            ctx.outcome(sorted(got))
    # several base rows without the LOWER/HIGHER options
    for base in ([[1, 2], [2, 2]], [[1, 1], [3, 1]]):
        for anyo in (0, 1):
            ctx.transition()
            f = PtnFilterChord.create(base, keys=keys, options=anyo * C.ANY_ORDER)
            got = {tuple(int(x) for x in r) for r in f.ar}
            exp = {p for r in base for p in (itertools.permutations(r) if anyo else [tuple(r)])}
            ctx.check("options.expansion", got == exp, site=dict(site, filter="chord", options=anyo), case=dict(case0, base=base, opt=anyo), observed=sorted(got), expected=sorted(exp))


# ------------------------------------------------------------------------------------------------ part B
def type_classes():
    from reamber.base.Hold import HoldTail
    from reamber.osu import OsuHit, OsuHold

    return dict(hit=OsuHit, hold=OsuHold, tail=HoldTail)


def filter_menu(size):
    """[(label, kwargs builder, reference predicate builder)] -- built lazily because the classes come from the library."""
    from reamber.algorithms.pattern.filters import PtnFilterChord, PtnFilterCombo, PtnFilterType
    from reamber.base.Hit import Hit
    from reamber.base.Hold import Hold, HoldTail
    from reamber.base.Note import Note

    T = type_classes()
    menu = []
    # chord filters
    C = PtnFilterChord.Option
    chord_bases = {2: [[[1, 1]], [[2, 1]], [[2, 2]], [[1, 2], [2, 2]]], 3: [[[1, 1, 1]], [[2, 1, 2]], [[2, 2, 1]]], 4: [[[1, 1, 1, 1]], [[2, 1, 1, 2]]]}[size]
    for base in chord_bases:
        multi = len(base) > 1
        for anyo, lower, higher in ((0, 0, 0), (1, 0, 0), (0, 1, 0), (0, 0, 1), (1, 1, 0)):
            if multi and (lower or higher):
                continue
            for exc in (False, True):
                opt = anyo * C.ANY_ORDER | lower * C.AND_LOWER | higher * C.AND_HIGHER
                rows = ref_chord(base, KEYS, anyo, lower, higher)
                menu.append((f"chord{base}/{opt}/{exc}", dict(chord=(base, opt, exc)), dict(chord=(rows, exc))))
    # combo filters
    O = PtnFilterCombo.Option
    combo_bases = {2: [[[0, 0]], [[0, 1]], [[1, 0]], [[0, 3]], [[0, 1], [3, 2]]], 3: [[[0, 0, 0]], [[0, 1, 2]], [[1, 0, 1]]], 4: [[[0, 0, 0, 0]], [[0, 1, 0, 1]]]}[size]
    for base in combo_bases:
        for rep, hm, vm in ((0, 0, 0), (1, 0, 0), (0, 1, 0), (0, 0, 1), (1, 1, 1)):
            for exc in (False, True):
                opt = rep * O.REPEAT | hm * O.HMIRROR | vm * O.VMIRROR
                rows = ref_combo(base, KEYS, rep, hm, vm)
                menu.append((f"combo{base}/{opt}/{exc}", dict(combo=(base, opt, exc)), dict(combo=(rows, exc))))
    # type filters
    Y = PtnFilterType.Option
    pad = [object] * (size - 2)
    type_bases = [
        ("[hit,hold]", [[T["hit"], T["hold"]] + pad]),
        ("[Tail,object]", [[HoldTail, object] + pad]),
        ("[Hit,Hit]", [[Hit, Hit] + [Note] * (size - 2)]),
        ("[Hold,Tail]|[Hit,Hit]", [[Hold, HoldTail] + pad, [Hit, Hit] + pad]),
        ("[object..]", [[object, object] + pad]),
    ]
    for lab, base in type_bases:
        for anyo, mir in ((0, 0), (1, 0), (0, 1)):
            for exc in (False, True):
                opt = anyo * Y.ANY_ORDER | mir * Y.MIRROR
                rows = ref_type(base, anyo, mir)
                menu.append((f"type{lab}/{opt}/{exc}", dict(type=(base, opt, exc)), dict(type=(rows, exc))))
    # combined filters
    n1 = len(menu)
    chords = [m for m in menu if "chord" in m[1]]
    combos = [m for m in menu if "combo" in m[1]]
    types = [m for m in menu if "type" in m[1]]
    for a, b, c in ((chords[2], combos[3], types[1]), (chords[5], combos[2], types[7]), (chords[0], combos[-1], types[3]), (chords[-1], combos[0], types[0])):
        menu.append((a[0] + "&" + b[0] + "&" + c[0], {**a[1], **b[1], **c[1]}, {**a[2], **b[2], **c[2]}))
    menu.append(("nofilter", {}, {}))
    return menu


_MENUS = {}
_FILTERS = {}


def ref_combinations(groups, size, ref):
    """groups: list of lists of (col, offset, tag-class) ; returns sorted list of sequences passing the reference predicates."""
    out = []
    for i in range(0, len(groups) - size + 1):
        chunk = groups[i : i + size]
        if "chord" in ref:
            rows, exc = ref["chord"]
            inn = tuple(len(g) for g in chunk) in rows
            if inn == exc:
                continue
        for seq in itertools.product(*chunk):
            if "combo" in ref:
                rows, exc = ref["combo"]
                if (tuple(o[0] for o in seq) in rows) == exc:
                    continue
            if "type" in ref:
                rows, exc = ref["type"]
                hit = any(all(issubclass(o[2], r) for o, r in zip(seq, row)) for row in rows)
                if hit == exc:
                    continue
            out.append(tuple((o[0], o[1], o[2].__name__) for o in seq))
    return sorted(out)


def check_combos(seq, tier, ctx, only=None):
    from reamber.algorithms.pattern import Pattern
    from reamber.algorithms.pattern.combos import PtnCombo
    from reamber.algorithms.pattern.filters import PtnFilterChord, PtnFilterCombo, PtnFilterType

    T = type_classes()
    cols, offs, types = [], [], []
    ref_groups = []
    for gi, g in enumerate(seq):
        rg = []
        for oi in GROUPS_B[g]:
            c, tg = OBJ[oi]
            cols.append(c)
            offs.append(100.0 * gi)
            types.append(T[tg])
            rg.append((c, 100.0 * gi, T[tg]))
        ref_groups.append(rg)
    case0 = dict(part="B", seq=list(seq), tier=tier)
    ctx.transition()
    # the constructor is an entry point of its own: the notes are handed over in time order for sequences of even sum,
    # in reverse order otherwise (a note set has no order)
    if sum(seq) % 2:
        cols, offs, types = cols[::-1], offs[::-1], types[::-1]
    groups = Pattern(cols, offs, types).group(0, None, False)
    gobs = [sorted((int(r["column"]), float(r["offset"]), r["type"].__name__) for r in g) for g in groups]
    gexp = [sorted((c, o, t.__name__) for c, o, t in rg) for rg in ref_groups]
    if not ctx.check("groups.as_built", gobs == gexp, site=dict(part="B"), case=case0, observed=gobs, expected=gexp):
        return
    pc = PtnCombo(groups)
    for size in (2, 3, 4):
        if size > len(seq) + 1 or (tier == "quick" and size == 4):
            continue
        if size not in _MENUS:
            _MENUS[size] = filter_menu(size)
        for lab, kw, ref in _MENUS[size]:
            if only is not None and only != [size, lab]:
                continue
            if tier == "quick" and only is None and size < len(seq) and not (lab == "nofilter" or "&" in lab):
                continue  # quick: single-filter menus only on sequences of exactly `size` groups (every chunk is one of those)
            for ms2 in (False, True) if (lab == "nofilter" or "&" in lab) else (False,):
                case = dict(case0, filter=[size, lab], make_size2=ms2)
                args = _FILTERS.get((size, lab))
                if args is None:
                    args = {}
                    if "chord" in kw:
                        b, o, e = kw["chord"]
                        args["chord_filter"] = PtnFilterChord.create(b, keys=KEYS, options=o, exclude=e).filter
                    if "combo" in kw:
                        b, o, e = kw["combo"]
                        args["combo_filter"] = PtnFilterCombo.create(b, keys=KEYS, options=o, exclude=e).filter
                    if "type" in kw:
                        b, o, e = kw["type"]
                        args["type_filter"] = PtnFilterType.create(b, options=o, exclude=e).filter
                    _FILTERS[(size, lab)] = args
                site = dict(part="B", filters=sorted(kw), size=size)
                ctx.transition()
                ctx.case()
                try:
                    res = pc.combinations(size=size, make_size2=ms2, **args)
                    got = sorted(tuple((int(x["column"]), float(x["offset"]), x["type"].__name__) for x in row) for ar in res for row in ar)
                except Exception as e:
                    ctx.check("combos.raises", False, site=dict(site, exc=type(e).__name__), case=case, observed=f"{type(e).__name__}: {e}"[:300], expected="combinations")
                    continue
                exp = ref_combinations(ref_groups, size, ref)
                total = len(ref_combinations(ref_groups, size, {}))
                ctx.state(("B", tuple(seq), size, lab, ms2), nontrivial=0 < len(exp) < total)
                if ms2:
                    exp = sorted(p for s in exp for p in zip(s[:-1], s[1:]))
                ctx.outcome(got)
                ctx.check("combos.exact", got == exp, site=site, case=case, observed=dict(extra=[g for g in got if g not in exp][:6], missing=[e for e in exp if e not in got][:6], n=len(got)), expected=dict(n=len(exp)))
        # templates
        if only is None and size <= 3:
            for lab, call, ref in templates(size):
                case = dict(case0, template=lab)
                ctx.transition()
                ctx.case()
                try:
                    res = call(pc)
                    got = sorted(tuple((int(x["column"]), float(x["offset"]), x["type"].__name__) for x in row) for ar in res for row in ar)
                except Exception as e:
                    ctx.check("combos.raises", False, site=dict(part="B", template=lab.split("(")[0], exc=type(e).__name__), case=case, observed=f"{type(e).__name__}: {e}"[:300], expected="combinations")
                    continue
                tsize, r = ref
                exp = ref_combinations(ref_groups, tsize, r)
                exp = sorted(p for s in exp for p in zip(s[:-1], s[1:]))
                ctx.check("template.exact", got == exp, site=dict(part="B", template=lab.split("(")[0]), case=case, observed=dict(extra=[g for g in got if g not in exp][:6], missing=[e for e in exp if e not in got][:6]), expected=dict(n=len(exp)))


def check_combos7(first, ctx):
    """Second use with another key count: after a 4-key filter has been built and used in this process, 7-key
    filters (columns 4..6 in use) over every 2-group sequence starting with group `first` report exactly the
    allowed sequences.  Self-contained (the 4-key warm-up is part of the case), so it replays alone."""
    from reamber.algorithms.pattern import Pattern
    from reamber.algorithms.pattern.combos import PtnCombo
    from reamber.algorithms.pattern.filters import PtnFilterCombo

    T = type_classes()
    O = PtnFilterCombo.Option
    case0 = dict(part="B7", first=first)
    # warm-up: 4-key filters of sizes 2 and 3
    ctx.transition(2)
    for base in ([[0, 1]], [[0, 1, 2]]):
        g4 = Pattern([0, 1, 2][: len(base[0])], [0.0, 100.0, 200.0][: len(base[0])], [T["hit"]] * len(base[0])).group(0, None, False)
        r4 = PtnCombo(g4).combinations(size=len(base[0]), combo_filter=PtnFilterCombo.create(base, keys=4, options=O.REPEAT).filter)
        ctx.check("reuse.warmup", sum(len(a) for a in r4) == 1, site=dict(part="B7"), case=case0, observed=sum(len(a) for a in r4), expected=1)
    bases = [[[0, 5]], [[5, 0]], [[1, 1]], [[1, 6]], [[0, 4]], [[6, 6]], [[0, 5], [4, 1]]]
    for second in range(len(GROUPS_7)):
        seq = [first, second]
        cols, offs, types, ref_groups = [], [], [], []
        for gi, g in enumerate(seq):
            rg = []
            for oi in GROUPS_7[g]:
                c, tg = OBJ7[oi]
                cols.append(c)
                offs.append(100.0 * gi)
                types.append(T[tg])
                rg.append((c, 100.0 * gi, T[tg]))
            ref_groups.append(rg)
        ctx.transition()
        pc = PtnCombo(Pattern(cols, offs, types).group(0, None, False))
        for base in bases:
            for rep, hm, vm in ((0, 0, 0), (1, 0, 0), (0, 1, 0), (1, 1, 1)):
                for exc in (False, True):
                    opt = rep * O.REPEAT | hm * O.HMIRROR | vm * O.VMIRROR
                    lab = f"combo{base}/{opt}/{exc}/keys7"
                    case = dict(case0, seq=seq, filter=lab)
                    site = dict(part="B7", filters=["combo"], size=2, keys=7)
                    ctx.transition()
                    ctx.case()
                    key = ("7", lab)
                    if key not in _FILTERS:
                        _FILTERS[key] = PtnFilterCombo.create(base, keys=7, options=opt, exclude=exc).filter
                    try:
                        res = pc.combinations(size=2, combo_filter=_FILTERS[key])
                        got = sorted(tuple((int(x["column"]), float(x["offset"]), x["type"].__name__) for x in row) for ar in res for row in ar)
                    except Exception as e:
                        ctx.check("combos.raises", False, site=dict(site, exc=type(e).__name__), case=case, observed=f"{type(e).__name__}: {e}"[:300], expected="combinations")
                        continue
                    ref = dict(combo=(ref_combo(base, 7, rep, hm, vm), exc))
                    exp = ref_combinations(ref_groups, 2, ref)
                    total = len(ref_combinations(ref_groups, 2, {}))
                    ctx.state(("B7", tuple(seq), lab), nontrivial=0 < len(exp) < total)
                    ctx.outcome(got)
                    ctx.check("combos.exact", got == exp, site=site, case=case, observed=dict(extra=[g for g in got if g not in exp][:6], missing=[e for e in exp if e not in got][:6], n=len(got)), expected=dict(n=len(exp)))


def templates(size):
    from reamber.base.Hold import HoldTail

    out = []
    # template_jacks(minimum_length=size): same column repeated, no hold tail anywhere in the sequence
    jack_rows = {tuple([c] * size) for c in range(KEYS)}
    tail_rows = [p for p in set(itertools.permutations([HoldTail] + [object] * (size - 1)))]
    out.append((f"jacks({size})", lambda pc, s=size: pc.template_jacks(s, KEYS), (size, dict(combo=(jack_rows, False), type=(tail_rows, True)))))
    if size == 2:
        tail2 = [(HoldTail, object), (object, HoldTail)]
        for p, s, low, jack in ((2, 1, False, False), (2, 1, True, False), (2, 2, True, True), (1, 1, False, True), (1, 2, False, False)):
            rows = ref_chord([[p, s]], KEYS, 1, 1, 0) if low else {(p, s)}
            ref = dict(chord=(rows, False), type=(tail2, True))
            if not jack:
                ref["combo"] = ({(c, c) for c in range(KEYS)}, True)
            out.append((f"chord_stream({p},{s},{low},{jack})", lambda pc, p=p, s=s, low=low, jack=jack: pc.template_chord_stream(p, s, KEYS, low, jack), (2, ref)))
    return out
