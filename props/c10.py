"""C10 — timing engine: positions <-> milliseconds, snapping, cumulative beats.

Exhaustive finite-domain enumeration: every tempo list of the bounded families x every query tuple (all multisets in all
orders, duplicates included) over positions straddling every change, compared with exact Fraction integration."""
from __future__ import annotations

import itertools
from fractions import Fraction as F

import numpy as np

from mc import core
from refs import timing as rt

ID = "C10"
LARGE = dict(quick="(changes, queries in one call, metronome): (40,300,4) (300,3000,4) (300,3000,3)", thorough="... and (1200,20000,4) (1200,5000,7)")
TITLE = "Timing engine: beat positions and millisecond offsets convert consistently"
RULE = (
    "function enumeration: a state is a distinct (tempo list, initial offset); a transition is one call of TimingMap.offsets/snaps/"
    "beats or Snapper.snap; non-trivial = tempo list with >=2 changes queried with a tuple of >=2 positions"
)
ASSUMPTIONS = [
    "mixed metronomes only with changes on measure lines (position semantics are otherwise ambiguous, DESIGN §7.7)",
    "tolerance 1e-6 ms + 1e-12*|t| between float64 results and exact Fraction integration",
    "Snapper 'allowed fractions' = all fractions with denominator <= 96 (DESIGN §7.1)",
]

TOL = 1e-6
BPMS = [F(60), F(120), F(180), F(375, 4)]
BPMS2 = [F(5994, 100), F(375, 2), F(240), F(3333, 10)]
INITS = [F(-2001, 2), F(0), F(250)]
METROS = [[1, 3, 4, 7], [2, 5, 6, 8]]
QLEN = dict(quick=3, thorough=4)


def bound(tier, seed):
    return dict(
        tempo_changes=dict(quick="1..3", thorough="1..4")[tier],
        metronomes="1..8 (measure-line changes); constant 4 and 3 (changes anywhere on the quarter-beat grid + 7/3, 97/48)",
        bpm_palette=[str(x) for x in (BPMS if seed % 2 == 0 or tier == "thorough" else BPMS2)],
        initial_offsets=[str(x) for x in INITS],
        query_tuple_len=f"<= {QLEN[tier]} (all tuples = all multisets in all orders)",
        snap_fixpoints="all fractions with denominator <= 96",
        snap_sweep_points=20001,
    )


def tempo_lists(tier, seed):
    """Deterministic enumeration of the tempo-list families. Each element: (kind, init, changes)."""
    out = []
    pals = [BPMS, BPMS2] if tier == "thorough" else [BPMS if seed % 2 == 0 else BPMS2]
    metro_sets = METROS if tier == "thorough" else [METROS[seed % 2]]
    nmax = 4 if tier == "thorough" else 3
    idx = 0
    for bp in pals:
        # (A) changes on measure lines, mixed metronomes
        for n in range(1, nmax + 1):
            meas_choices = list(itertools.combinations([1, 2, 4, 5], n - 1))
            if n == 1:
                bpm_pats = [(b,) for b in bp]
                mets = [(m,) for m in range(1, 9)]
            elif n == 2:
                bpm_pats = list(itertools.product(bp[:3], repeat=2))
                mets = [p for ms in METROS for p in itertools.product(ms, repeat=2)] if tier == "thorough" else list(
                    itertools.product(metro_sets[0], repeat=2))
            else:
                bpm_pats = [tuple(bp[(r + i) % 3] for i in range(n)) for r in range(3)] + [tuple(bp[(r + 2 * i) % 4] for i in range(n)) for r in range(1)]
                mets = [p for ms in metro_sets for p in itertools.product(ms, repeat=n)]
                if n == 4:
                    mets = [p for p in mets if len(set(p)) >= 3][:48]
            for meas in meas_choices:
                for bs in bpm_pats:
                    for ms in mets:
                        ch = [(bs[0], ms[0], 0, F(0))] + [(bs[i + 1], ms[i + 1], meas[i], F(0)) for i in range(n - 1)]
                        out.append(("A", INITS[idx % 3], ch))
                        idx += 1
        # (B) constant metronome, changes anywhere on the grid
        grid = [F(k, 4) for k in range(1, 33, 3)] + [F(7, 3), F(97, 48)]
        for m in (4, 3):
            for n in range(2, nmax + 1):
                pos_choices = list(itertools.combinations(sorted(grid), n - 1))
                if n == 2:
                    bpm_pats = list(itertools.product(bp[:2] + bp[3:], repeat=2))
                elif n == 3:
                    bpm_pats = [tuple(bp[(r + i) % 4] for i in range(n)) for r in range(2)]
                else:
                    bpm_pats = [tuple(bp[(1 + i) % 4] for i in range(n))]
                    pos_choices = pos_choices[::3]
                for pos in pos_choices:
                    for bs in bpm_pats:
                        ch = [(bs[0], m, 0, F(0))] + [(bs[i + 1], m, int(pos[i] // m), pos[i] % m) for i in range(n - 1)]
                        out.append(("B", INITS[idx % 3], ch))
                        idx += 1
    # (C) extreme tempos meeting ordinary ones ("any positive bpm"): a beat of 1 ms next to a beat of 500 ms or of 2 minutes
    XB = [F(60000), F(120), F(1, 2), F(1000)]
    for m in (4, 3):
        for pos in (F(1, 4), F(4), F(13, 2), F(97, 48)):
            for b0, b1 in itertools.permutations(XB, 2):
                out.append(("B", INITS[idx % 3], [(b0, m, 0, F(0)), (b1, m, int(pos // m), pos % m)]))
                idx += 1
        for b0, b1, b2 in ((XB[1], XB[0], XB[3]), (XB[0], XB[1], XB[0]), (XB[3], XB[2], XB[0])):
            for p1, p2 in ((F(2), F(13, 2)), (F(1, 4), F(4))):
                out.append(("B", INITS[idx % 3], [(b0, m, 0, F(0)), (b1, m, int(p1 // m), p1 % m), (b2, m, int(p2 // m), p2 % m)]))
                idx += 1
    for b0, b1 in itertools.permutations(XB, 2):
        for m0, m1 in ((4, 3), (7, 4)):
            out.append(("A", INITS[idx % 3], [(b0, m0, 0, F(0)), (b1, m1, 2, F(0))]))
            idx += 1
    if tier == "thorough":
        # every list also with the two other initial offsets for the single- and two-change lists
        extra = [(k, i2, ch) for (k, i, ch) in out if len(ch) <= 2 for i2 in INITS if i2 != i]
        out.extend(extra)
    return out


CHUNK = 12


def roots(tier, seed):
    n = len(tempo_lists(tier, seed))
    r = [dict(kind="tempo", start=s, stop=min(n, s + CHUNK)) for s in range(0, n, CHUNK)]
    r += [dict(kind="large", args=list(a)) for a in ([(40, 300, 4), (300, 3000, 4), (300, 3000, 3)] if tier == "quick" else [(40, 300, 4), (300, 3000, 4), (300, 3000, 3), (1200, 20000, 4), (1200, 5000, 7)])]
    r += [dict(kind="snapper", part=p) for p in range(4)]
    r += [dict(kind="snap_arith", metronome=m) for m in range(1, 9)]
    r += [dict(kind="bpmlist")]
    return r


_CACHE = {}


def explore(root, tier, ctx):
    if root["kind"] == "tempo":
        key = (tier, root.get("seed", 0))
        seed = int(__import__("os").environ.get("VERIF_SEED", "0") or 0)
        if (tier, seed) not in _CACHE:
            _CACHE[(tier, seed)] = tempo_lists(tier, seed)
        tl = _CACHE[(tier, seed)]
        for i in range(root["start"], root["stop"]):
            kind, init, ch = tl[i]
            check_tempo_list(kind, init, ch, QLEN[tier], ctx)
            if i + 1 < len(tl):
                check_reuse(tl[i], tl[i + 1], ctx)
    elif root["kind"] == "large":
        check_large(*root["args"], ctx)
    elif root["kind"] == "snapper":
        check_snapper(root["part"], ctx)
    elif root["kind"] == "snap_arith":
        check_snap_arith(root["metronome"], ctx)
    elif root["kind"] == "bpmlist":
        check_bpmlist(ctx)


def replay(case, ctx):
    k = case["kind"]
    if k == "tempo":
        ch = [(F_(b), m, me, F_(be)) for b, m, me, be in case["changes"]]
        check_tempo_list(case["family"], F_(case["init"]), ch, case.get("qlen", 3), ctx, only_query=case.get("query"))
    elif k == "large":
        check_large(case["n_changes"], case["n_queries"], case["metronome"], ctx)
    elif k == "reuse":
        check_reuse((case["family"], F_(case["init"]), [(F_(b), m, me, F_(be)) for b, m, me, be in case["changes"]]),
                    (case["family2"], F_(case["init2"]), [(F_(b), m, me, F_(be)) for b, m, me, be in case["changes2"]]), ctx)
    elif k == "snapper":
        for p in range(4):
            check_snapper(p, ctx)
    elif k == "snap_arith":
        check_snap_arith(case["metronome"], ctx)
    elif k == "bpmlist":
        check_bpmlist(ctx)


def F_(x):
    return x if isinstance(x, F) else F(str(x)) if isinstance(x, str) else F(x)


def close(a, b, tol=TOL):
    return abs(float(a) - float(b)) <= tol + 1e-12 * abs(float(b))


def qpositions(ch):
    q = []
    for i, (b, m, me, be) in enumerate(ch):
        q.append((me, be))
        nb = be + F(1, 2)
        q.append((me + int(nb // m), nb % m))
        if i > 0:
            # one sixteenth before the change (inside the previous segment)
            pb, pm, pme, pbe = ch[i - 1]
            tot = (me - pme) * pm + (be - pbe)  # beats since previous change
            if tot > F(1, 4):
                t2 = tot - F(1, 4)
                q.append((pme + int((pbe + t2) // pm), (pbe + t2) % pm))
    last = ch[-1]
    q.append((last[2] + 3, (F(last[1] - 1) + F(1, 3)) if last[1] > 1 else F(1, 3)))
    return sorted(set(q))


def check_tempo_list(kind, init, ch, qlen, ctx, only_query=None):
    from reamber.algorithms.timing.TimingMap import TimingMap
    from reamber.algorithms.timing.utils.BpmChangeSnap import BpmChangeSnap
    from reamber.algorithms.timing.utils.Snapper import Snapper
    from reamber.algorithms.timing.utils.snap import Snap

    sn = Snapper()
    n = len(ch)
    casebase = dict(kind="tempo", family=kind, init=str(init), changes=[(str(b), m, me, str(be)) for b, m, me, be in ch], qlen=qlen)
    site0 = dict(family=kind, n_changes=n)
    ctx.state(("tl", kind, str(init), tuple(casebase["changes"])))
    ctx.transition()
    try:
        tm = TimingMap.from_bpm_changes_snap(float(init), [BpmChangeSnap(float(b), m, Snap(me, be, m)) for b, m, me, be in ch], False)
    except Exception as e:
        ctx.check("build.raises", False, site=dict(site0, exc=type(e).__name__), case=casebase, observed=f"{type(e).__name__}: {e}"[:200], expected="a TimingMap")
        return
    ts = rt.change_times(init, ch)
    # the tempo changes themselves sit at the integrated times
    got = [b.offset for b in tm.bpm_changes_offset]
    ctx.check("changes.time", len(got) == n and all(close(g, e) for g, e in zip(got, ts)), site=site0, case=casebase, observed=got, expected=[float(t) for t in ts])
    qpos = qpositions(ch)
    mets = {}
    for me, be in qpos:
        mets[(me, be)] = ch[rt.active_index(ch, me, be)][1]
    exp_t = {p: rt.offset_of(init, ch, p[0], p[1], ts) for p in qpos}
    if len(ctx.samples) < 2 and n >= 2:
        ctx.sample(dict(casebase, query_positions=[(me, str(be)) for me, be in qpos]))
    tuples = [only_query] if only_query else None
    for k in range(1, qlen + 1):
        if only_query:
            if k > 1:
                break
            it = [tuple((me, F_(be)) for me, be in only_query)]
        else:
            # length 4: all tuples over a reduced position set (first 5) to bound the cost
            it = itertools.product(qpos if k < 4 else qpos[:5], repeat=k)
        for q in it:
            ctx.case()
            if n >= 2 and len(q) >= 2:
                ctx.nontrivial.add(core.h64((casebase["changes"], str(init), tuple((me, str(be)) for me, be in q))))
            case = lambda q=q: dict(casebase, query=[(me, str(be)) for me, be in q])
            snaps = [Snap(me, be, mets.get((me, be)) or ch[rt.active_index(ch, me, be)][1]) for me, be in q]
            exp = [exp_t.get(p) if p in exp_t else rt.offset_of(init, ch, p[0], p[1], ts) for p in q]
            ctx.transition()
            try:
                o = tm.offsets(snaps)
            except Exception as e:
                ctx.check("offsets.raises", False, site=dict(site0, exc=type(e).__name__), case=case, observed=f"{type(e).__name__}: {e}"[:200], expected="offsets")
                continue
            ok = len(o) == len(q) and all(close(x, e) for x, e in zip(o, exp))
            if not ok and len(o) == len(q) and sorted(map(float, o)) and all(close(x, e) for x, e in zip(sorted(map(float, o)), sorted(map(float, exp)))):
                ctx.check("offsets.order", False, site=dict(site0, qlen=len(q)), case=case, observed=[float(x) for x in o], expected=[float(e) for e in exp])
            else:
                ctx.passed("offsets.order")
                ctx.check("offsets.value", ok, site=dict(site0), case=case, observed=[float(x) for x in o], expected=[float(e) for e in exp])
            ctx.outcome(tuple(round(float(x), 6) for x in o))
            if not ok:
                continue
            ctx.transition()
            try:
                s2 = tm.snaps(o, sn)
            except Exception as e:
                ctx.check("snaps.raises", False, site=dict(site0, exc=type(e).__name__), case=case, observed=f"{type(e).__name__}: {e}"[:200], expected="snaps")
                continue
            # position -> ms -> position returns the same position (on-grid)
            ok2 = len(s2) == len(q) and all((a.measure, a.beat) == (me, be) for a, (me, be) in zip(s2, q))
            ctx.check("roundtrip.on_grid", ok2, site=dict(site0), case=case, observed=[(int(a.measure), str(a.beat)) for a in s2], expected=[(me, str(be)) for me, be in q])
            if kind == "B":
                ctx.transition()
                try:
                    bt = tm.beats(list(o), sn)
                except Exception as e:
                    ctx.check("beats.raises", False, site=dict(site0, exc=type(e).__name__), case=case, observed=f"{type(e).__name__}: {e}"[:200], expected="beats")
                    continue
                m = ch[0][1]
                expb = [m * me + be for me, be in q]
                ctx.check("beats.distance", [F_(x) for x in bt] == expb, site=dict(site0), case=case, observed=[str(x) for x in bt], expected=[str(x) for x in expb])
    if only_query:
        return
    # fine grid positions measured FROM each change (1/64, 1/96, 5/7 of a beat later): with a change on a fractional beat the
    # absolute beat has a denominator beyond 96, yet the time lies on the snap grid of its segment - one call, all of them
    fine = []
    for i, (b, m, me, be) in enumerate(ch):
        for d in (F(1, 64), F(1, 96), F(5, 7)):
            nb = be + d
            p = (me + int(nb // m), nb % m)
            if rt.active_index(ch, p[0], p[1]) == i:
                fine.append((p, i))
    if fine:
        ctx.transition(2)
        ctx.case()
        case = lambda: dict(casebase, fine_positions=[(p[0], str(p[1])) for p, _ in fine])
        try:
            exp = [rt.offset_of(init, ch, p[0], p[1], ts) for p, _ in fine]
            o = tm.offsets([Snap(p[0], p[1], ch[i][1]) for p, i in fine])
            okf = all(close(x, e) for x, e in zip(o, exp))
            ctx.check("offsets.value", okf, site=dict(site0, fine=True), case=case, observed=[float(x) for x in o], expected=[float(e) for e in exp])
            if okf:
                s2 = tm.snaps(list(o), sn)
                ok2 = all((a.measure, a.beat) == p for a, (p, _) in zip(s2, fine))
                ctx.check("roundtrip.on_grid", ok2, site=dict(site0, fine=True), case=case, observed=[(int(a.measure), str(a.beat)) for a in s2], expected=[(p[0], str(p[1])) for p, _ in fine])
                if kind == "B":
                    bt = [F_(x) for x in tm.beats(list(o), sn)]
                    mm = ch[0][1]
                    ctx.check("beats.distance", bt == [mm * p[0] + p[1] for p, _ in fine], site=dict(site0, fine=True), case=case, observed=[str(x) for x in bt], expected=[str(mm * p[0] + p[1]) for p, _ in fine])
        except Exception as e:
            ctx.check("offgrid.raises", False, site=dict(site0, exc=type(e).__name__, fine=True), case=case, observed=f"{type(e).__name__}: {e}"[:200], expected="offsets/snaps")
    # ms -> position -> ms for off-grid times: within 1/192 beat at the active tempo; monotone beats
    offgrid = []
    for k, (b, m, me, be) in enumerate(ch):
        blen = F(60000) / b
        seg_end = ts[k + 1] if k + 1 < n else ts[k] + 6 * blen
        for fr in (F(1, 5) + F(1, 10000), F(3017, 10000), F(1, 193), F(191, 192), F(999, 1000), F(5, 2) + F(1, 7)):
            t = ts[k] + fr * blen
            if t < seg_end:
                offgrid.append((float(t), k))
        # a hair before the next change: still this segment's tempo
        if k + 1 < n:
            for d in (F(8, 100), F(1, 100)):
                if ts[k + 1] - d > ts[k] and float(ts[k + 1] - d) < float(ts[k + 1]):
                    offgrid.append((float(ts[k + 1] - d), k))
    if offgrid:
        times = [t for t, _ in offgrid]
        for order in (times, times[::-1]):
            ctx.transition(2)
            ctx.case()
            case = lambda order=order: dict(casebase, offgrid_times=order)
            try:
                s = tm.snaps(order, sn)
                back = tm.offsets(list(s))
            except Exception as e:
                ctx.check("offgrid.raises", False, site=dict(site0, exc=type(e).__name__), case=case, observed=f"{type(e).__name__}: {e}"[:200], expected="snaps/offsets")
                continue
            kmap = dict(offgrid)
            worst = max((abs(bk - t) / float(F(60000) / ch[kmap[t]][0]) for t, bk in zip(order, back)), default=0)
            ctx.check("roundtrip.off_grid", worst <= 1 / 192 + 1e-9, site=dict(site0), case=case, observed=worst, expected="<= 1/192 beat")
            if kind == "B":
                ctx.transition()
                try:
                    bt = [F_(x) for x in tm.beats(list(order), sn)]
                    pairs = sorted(zip(order, bt))
                    mono = all(b1 <= b2 for (_, b1), (_, b2) in zip(pairs[:-1], pairs[1:]))
                    ctx.check("beats.monotone", mono, site=dict(site0), case=case, observed=[str(x) for x in bt], expected="non-decreasing with time")
                except Exception as e:
                    ctx.check("beats.raises", False, site=dict(site0, exc=type(e).__name__), case=case, observed=f"{type(e).__name__}: {e}"[:200], expected="beats")


def check_large(n_changes, n_queries, m, ctx):
    """size: a tempo list of n_changes changes (constant metronome m, gaps cycling through on-line and off-line values) queried
    with ONE call of n_queries positions - unsorted, with duplicates, up to the end of the list and beyond."""
    from reamber.algorithms.timing.TimingMap import TimingMap
    from reamber.algorithms.timing.utils.BpmChangeSnap import BpmChangeSnap
    from reamber.algorithms.timing.utils.Snapper import Snapper
    from reamber.algorithms.timing.utils.snap import Snap

    sn = Snapper()
    gaps = [F(1, 2), F(3), F(4), F(5, 4), F(8), F(11, 4), F(m), F(2 * m) + F(1, 2)]
    pos, ch = F(0), []
    for i in range(n_changes):
        ch.append((BPMS[i % 4] if i % 8 < 4 else BPMS2[i % 4], m, int(pos // m), pos % m))
        pos += gaps[i % len(gaps)]
    total = pos + 8
    init = F(-2001, 2)
    case = dict(kind="large", n_changes=n_changes, n_queries=n_queries, metronome=m)
    site = dict(family="large", n_changes=n_changes)
    ctx.state(("large", n_changes, n_queries, m), nontrivial=True)
    ctx.case()
    ctx.transition()
    try:
        tm = TimingMap.from_bpm_changes_snap(float(init), [BpmChangeSnap(float(b), mm, Snap(me, be, mm)) for b, mm, me, be in ch], False)
    except Exception as e:
        ctx.check("build.raises", False, site=dict(site, exc=type(e).__name__), case=case, observed=f"{type(e).__name__}: {e}"[:200], expected="a TimingMap")
        return
    ts = rt.change_times(init, ch)
    q = []
    for i in range(n_queries):
        b = (F((i * 7919) % int(total * 4), 4)) if i % 5 else (F((i * 31) % int(total * 4), 4))  # quarter-beat grid, duplicates among them
        q.append((int(b // m), b % m))
    exp = [rt.offset_of(init, ch, me, be, ts) for me, be in q]
    ctx.transition()
    try:
        o = tm.offsets([Snap(me, be, m) for me, be in q])
        ok = len(o) == len(exp) and all(close(x, e) for x, e in zip(o, exp))
        bad = [(i, float(x), float(e)) for i, (x, e) in enumerate(zip(o, exp)) if not close(x, e)][:5]
        ctx.check("offsets.value", ok, site=site, case=case, observed=bad, expected="piecewise-linear integration, in query order")
        if ok:
            s2 = tm.snaps(list(o), sn)
            bad2 = [(i, int(a.measure), str(a.beat), me, str(be)) for i, (a, (me, be)) in enumerate(zip(s2, q)) if (a.measure, a.beat) != (me, be)][:5]
            ctx.check("roundtrip.on_grid", not bad2, site=site, case=case, observed=bad2, expected="the queried positions")
            bt = [F_(x) for x in tm.beats(list(o), sn)]
            bad3 = [(i, str(x), str(m * me + be)) for i, (x, (me, be)) in enumerate(zip(bt, q)) if x != m * me + be][:5]
            ctx.check("beats.distance", not bad3, site=site, case=case, observed=bad3, expected="metronome * measure + beat")
    except Exception as e:
        ctx.check("offsets.raises", False, site=dict(site, exc=type(e).__name__), case=case, observed=f"{type(e).__name__}: {e}"[:200], expected="offsets / snaps / beats")


def check_reuse(a, b, ctx):
    """Second use: a TimingMap built for tempo list A is queried, then its bpm_changes_offset (the ground truth the
    snaps are re-derived from on every call) is replaced by list B's - once by editing the list in place, once by
    assigning a new list - and queried again: every answer is B's."""
    from reamber.algorithms.timing.TimingMap import TimingMap
    from reamber.algorithms.timing.utils.BpmChangeSnap import BpmChangeSnap
    from reamber.algorithms.timing.utils.Snapper import Snapper
    from reamber.algorithms.timing.utils.snap import Snap

    (ka, ia, cha), (kb, ib, chb) = a, b
    sn = Snapper()
    case = dict(kind="reuse", family=ka, init=str(ia), changes=[(str(x), m, me, str(be)) for x, m, me, be in cha],
                family2=kb, init2=str(ib), changes2=[(str(x), m, me, str(be)) for x, m, me, be in chb])

    def mk(init, ch):
        return TimingMap.from_bpm_changes_snap(float(init), [BpmChangeSnap(float(x), m, Snap(me, be, m)) for x, m, me, be in ch], False)

    ts = rt.change_times(ib, chb)
    qpos = qpositions(chb)
    exp = [rt.offset_of(ib, chb, me, be, ts) for me, be in qpos]
    for how in ("edit list in place", "assign new list", "constructor, list in reverse order"):
        site = dict(reuse=how)
        ctx.state(("reuse", how, ka, str(ia), tuple(case["changes"]), kb, str(ib), tuple(case["changes2"])), nontrivial=True)
        ctx.case()
        ctx.transition(3)
        try:
            tm, fresh = mk(ia, cha), mk(ib, chb)
            qa = qpositions(cha)
            first = tm.offsets([Snap(me, be, cha[rt.active_index(cha, me, be)][1]) for me, be in qa])
            tm.snaps(list(first), sn)
            if how.startswith("constructor"):
                # a tempo-change list has no order of its own: the map built directly from B's changes handed over in
                # reverse order answers like the one built from them in time order
                tm = TimingMap(bpm_changes_offset=list(fresh.bpm_changes_offset)[::-1])
            elif how == "edit list in place":
                tm.bpm_changes_offset[:] = list(fresh.bpm_changes_offset)
            else:
                tm.bpm_changes_offset = list(fresh.bpm_changes_offset)
            snaps = [Snap(me, be, chb[rt.active_index(chb, me, be)][1]) for me, be in qpos]
            o = tm.offsets(snaps)
            ok = len(o) == len(exp) and all(close(x, e) for x, e in zip(o, exp))
            ctx.check("reuse.offsets", ok, site=site, case=case, observed=[float(x) for x in o], expected=[float(e) for e in exp])
            if ok:
                s2 = tm.snaps(list(o), sn)
                ok2 = all((x.measure, x.beat) == (me, be) for x, (me, be) in zip(s2, qpos))
                ctx.check("reuse.snaps", ok2, site=site, case=case, observed=[(int(x.measure), str(x.beat)) for x in s2], expected=[(me, str(be)) for me, be in qpos])
                if kb == "B":
                    m = chb[0][1]
                    bt = [F_(x) for x in tm.beats(list(o), sn)]
                    ctx.check("reuse.beats", bt == [m * me + be for me, be in qpos], site=site, case=case, observed=[str(x) for x in bt], expected=[str(m * me + be) for me, be in qpos])
        except Exception as e:
            ctx.check("reuse.raises", False, site=dict(site, exc=type(e).__name__), case=case, observed=f"{type(e).__name__}: {e}"[:200], expected="answers for the edited tempo list")


def check_snapper(part, ctx):
    from reamber.algorithms.timing.utils.Snapper import Snapper
    from reamber.algorithms.timing.utils.conf import DEFAULT_DIVISIONS

    sn = Snapper()
    fix = sorted({F(n, d) for d in range(1, 97) for n in range(0, d)})
    fixf = [float(x) for x in fix] + [1.0]
    case = dict(kind="snapper")
    if part == 0:
        for x in fix:
            ctx.transition()
            ctx.case()
            r = sn.snap(float(x))
            ctx.state(("fix", str(x)))
            ctx.check("snap.fixpoints", r == x, site={}, case=case, observed=str(r), expected=str(x))
        ctx.sample(dict(case, fixpoints=len(fix), first=[str(x) for x in fix[:5]]))
        # documented divisions are fixpoints, also with integer parts and negatives
        for d in DEFAULT_DIVISIONS:
            for n in range(d):
                for quo in (-2, -1, 0, 3):
                    x = F(n, d) + quo
                    ctx.transition()
                    r = sn.snap(float(x))
                    ctx.check("snap.quotient", abs(r - x) <= F(1, 10**9), site=dict(quo=quo), case=case, observed=str(r), expected=str(x))
    else:
        import bisect

        # sweep of [0,1]: part p covers every 3rd point; result is a fixpoint, none strictly nearer, idempotent
        for i in range(part - 1, 20001, 3):
            v = i / 20000
            ctx.transition()
            ctx.case()
            r = sn.snap(v)
            ctx.state(("sweep", i), nontrivial=True)
            isfix = (r in fix) or r == 1
            j = bisect.bisect_left(fixf, v)
            best = min(abs(fixf[k] - v) for k in (j - 1, j, j + 1) if 0 <= k < len(fixf))
            ctx.check("snap.nearest", isfix and abs(float(r) - v) <= best + 1e-12, site={}, case=dict(case, value=v), observed=str(r), expected=f"a fraction with denominator <=96 at distance {best}")
            ctx.check("snap.bound", abs(float(r) - v) <= 1 / 192 + 1e-12, site={}, case=dict(case, value=v), observed=str(r), expected="within 1/192")
            r2 = sn.snap(float(r))
            ctx.check("snap.idempotent", r2 == r, site={}, case=dict(case, value=v), observed=str(r2), expected=str(r))
            ctx.outcome(str(r))


def check_snap_arith(m, ctx):
    from reamber.algorithms.timing.utils.snap import Snap

    case = dict(kind="snap_arith", metronome=m)
    beats = [F(k, 4) for k in range(0, 4 * m)] + [F(1, 3)]
    beats = [b for b in beats if b < m]
    pos = [(me, be) for me in range(0, 3) for be in beats]
    ctx.sample(dict(case, positions=len(pos)))
    for me, be in pos:
        # carry / normalisation: the same total beats written with an overflowing beat field
        for carry in (1, 2):
            ctx.transition()
            ctx.case()
            try:
                s = Snap(me, be + carry * m, m)
                ctx.check("snap.carry", (s.measure, s.beat) == (me + carry, be), site={}, case=case, observed=(int(s.measure), str(s.beat)), expected=(me + carry, str(be)))
            except Exception as e:
                ctx.check("snap.carry", False, site=dict(exc=type(e).__name__), case=case, observed=str(e), expected=(me + carry, str(be)))
    for (me1, be1), (me2, be2) in itertools.product(pos, repeat=2):
        ctx.transition()
        ctx.case()
        ctx.state(("arith", m, me1, str(be1), me2, str(be2)), nontrivial=True)
        a, b = Snap(me1, be1, m), Snap(me2, be2, m)
        ta, tb = me1 * m + be1, me2 * m + be2
        ctx.check("snap.order", (a < b) == (ta < tb) and (a == b) == (ta == tb), site={}, case=case, observed=[a < b, a == b], expected=[ta < tb, ta == tb])
        try:
            s = a + b
            ctx.check("snap.add", s.measure * m + s.beat == ta + tb and 0 <= s.beat < m, site={}, case=case, observed=(int(s.measure), str(s.beat)), expected=str(ta + tb))
        except Exception as e:
            ctx.check("snap.add", False, site=dict(exc=type(e).__name__), case=case, observed=str(e), expected=str(ta + tb))
        if ta >= tb:
            try:
                d = a - b
                ctx.check("snap.sub", d.measure * m + d.beat == ta - tb and 0 <= d.beat < m, site={}, case=case, observed=(int(d.measure), str(d.beat)), expected=str(ta - tb))
                ctx.outcome((m, str(ta - tb)))
            except Exception as e:
                ctx.check("snap.sub", False, site=dict(exc=type(e).__name__), case=case, observed=str(e), expected=str(ta - tb))


def check_bpmlist(ctx):
    """BpmList.to_timing_map: tempo points given in ms (any row order) -> positions consistent with integration."""
    from reamber.algorithms.timing.utils.Snapper import Snapper
    from reamber.base.Bpm import Bpm
    from reamber.base.lists.BpmList import BpmList

    sn = Snapper()
    case = dict(kind="bpmlist")
    lists = []
    for bpms in itertools.product([120.0, 90.0, 187.5], repeat=2):
        for nmeas in (1, 2, 3):
            for metro in (4, 3):
                t1 = nmeas * metro * 60000 / bpms[0]
                lists.append([(0.0, bpms[0], metro), (t1, bpms[1], metro)])
    for rows in lists:
        for perm in itertools.permutations(rows):
            ctx.transition(3)
            ctx.case()
            ctx.state(("bpmlist", tuple(perm)), nontrivial=True)
            bl = BpmList([Bpm(offset=o, bpm=b, metronome=m) for o, b, m in perm])
            try:
                tm = bl.to_timing_map()
                # query: one beat after each change and two measures after the last
                srt = sorted(rows)
                qs = [srt[0][0] + 60000 / srt[0][1], srt[1][0], srt[1][0] + 60000 / srt[1][1] * 2.5]
                s = tm.snaps(qs, sn)
                m0 = srt[0][2]
                nm = round(srt[1][0] / (m0 * 60000 / srt[0][1]))
                exp = [(0, F(1)), (nm, F(0)), (nm + (1 if m0 == 2 else 0), F(5, 2))]
                exp[2] = (nm + int(F(5, 2) // srt[1][2]), F(5, 2) % srt[1][2])
                got = [(int(x.measure), x.beat) for x in s]
                ctx.check("bpmlist.snaps", got == exp, site={}, case=dict(case, rows=list(perm)), observed=[(a, str(b)) for a, b in got], expected=[(a, str(b)) for a, b in exp])
                back = tm.offsets(list(s))
                ctx.check("bpmlist.roundtrip", all(close(a, b) for a, b in zip(back, qs)), site={}, case=dict(case, rows=list(perm)), observed=[float(x) for x in back], expected=qs)
            except Exception as e:
                ctx.check("bpmlist.raises", False, site=dict(exc=type(e).__name__), case=dict(case, rows=list(perm)), observed=f"{type(e).__name__}: {e}"[:200], expected="snaps")
    ctx.sample(dict(case, lists=len(lists)))
