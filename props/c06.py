"""C06 — Quaver file and in-memory chart denote the same chart, both directions.

Builder-graph search over abstract .qua documents (deviation- and depth-bounded) rendered by my own YAML emitter and read by the
real QuaMap.read (denotation known by construction, omitted keys take the format's defaults); every chart read, every
constructor-built chart with fractional times and every chart produced by the four converters-to-Quaver is written by the real
writer, and the text is loaded with PyYAML (trusted base) and checked against a table of the format's keys and value types."""
from __future__ import annotations

import math

from mc import builder, canon, fileio, starts

ID = "C06"
TITLE = "Quaver file and in-memory chart denote the same chart, both directions"
RULE = (
    "builder graph: a state is a distinct abstract .qua document (deviation set x element sequence), a constructor-built chart or a "
    "converted chart; a transition is one QuaMap.read / write; non-trivial = at least one deviation or appended element"
)
ASSUMPTIONS = [
    "omitted StartTime == 0, omitted KeySounds == no keysounds, absent list sections == empty lists (Quaver omits default values); omitted Bpm/Multiplier are compared only with the item class's own declared default (DESIGN 7.2)",
    "metadata strings that YAML would read as another type are quoted in the generated files (how Quaver's serializer would quote them is not known offline)",
    "format key table (top level, timing point, SV, hit object) is my reading of Quaver's .qua; PyYAML is trusted for loading what the writer produced",
    "times move by < 1 ms on writing (the writer stores integer milliseconds)",
]
TECHNIQUE = "builder-graph search over abstract .qua documents driven through the real reader and writer; denotation known by construction; written text checked against a format key/type table"
LEVEL_TEXT = (
    "Every .qua document with <=2 (quick) / <=3 (thorough) deviations from a default chart over 14 axes (Keys7, lanes, StartTime omitted on "
    "a hit / hold / timing point / SV, Bpm or Multiplier omitted, KeySounds omitted / [] / one entry, SV section [] / absent, hits only / holds "
    "only / no objects, 8 quoting-hostile metadata strings on 6 fields, numeric metadata, negative and large times, extra per-object keys, "
    "unknown top-level key) combined with element sequences (hit, holds, timing point, SV) up to depth 2/3; read vs denotation, write vs "
    "key/type table and denotation (<1 ms), read(write(x)) and write(read(text)) round trips; constructor-built charts with fractional and "
    "negative times; charts produced by OsuToQua, BMSToQua, SMToQua, O2JToQua."
)
LEVEL_NOTE = "Known open finding: InitialScrollVelocity is written as '' (a string) unless set."

STAIRS = dict(quick=[(2, 1), (1, 2), (0, 3)], thorough=[(3, 1), (2, 2), (1, 3)])

TOP = dict(
    AudioFile=str, SongPreviewTime=int, BackgroundFile=str, BannerFile=str, MapId=int, MapSetId=int, Mode=str, Title=str, Artist=str, Source=str, Tags=str, Creator=str,
    DifficultyName=str, Description=str, Genre=str, BPMDoesNotAffectScrollVelocity=bool, InitialScrollVelocity=float, HasScratchKey=bool, EditorLayers=list,
    CustomAudioSamples=list, SoundEffects=list, TimingPoints=list, SliderVelocities=list, HitObjects=list,
)
TP = dict(StartTime=float, Bpm=float, Signature=int, Hidden=bool)
SV = dict(StartTime=float, Multiplier=float)
HO = dict(StartTime=int, Lane=int, EndTime=int, HitSound=(int, str), KeySounds=list, EditorLayer=int)


def default_doc():
    return dict(
        meta=dict(AudioFile="a.mp3", Mode="Keys4", Title="t", Artist="ar", Creator="cr", DifficultyName="ver", Tags="x y"),
        tps=[dict(StartTime=0, Bpm=120)],
        svs=[dict(StartTime=100, Multiplier=2.0)],
        hos=[dict(StartTime=500, Lane=2, KeySounds=[])],
        extra_top={},
    )


def ax_mode7(doc):
    doc["meta"]["Mode"] = "Keys7"
    if doc["hos"]:
        doc["hos"][0]["Lane"] = 7


def ax_lane(l):
    def f(doc):
        if doc["hos"]:
            doc["hos"][0]["Lane"] = l

    return f


def ax_omit(where, key):
    def f(doc):
        if where == "hit":
            if doc["hos"]:
                doc["hos"][0].pop(key, None)
        elif where == "hold":
            h = dict(StartTime=0, Lane=3, EndTime=750, KeySounds=[])
            h.pop(key, None)
            doc["hos"].append(h)
        elif where == "tp":
            doc["tps"][0].pop(key, None)
        elif where == "tp2":
            doc["tps"].append(dict(StartTime=2000, Bpm=60))
            doc["tps"][1].pop(key, None)
        elif where == "sv":
            doc["svs"] = [dict(StartTime=0, Multiplier=0.5)] + (doc["svs"] or [])
            doc["svs"][0].pop(key, None)
        elif where == "sv2":
            if doc["svs"]:
                doc["svs"][0].pop(key, None)

    return f


def ax_keysounds(v):
    def f(doc):
        if doc["hos"]:
            doc["hos"][0]["KeySounds"] = v

    return f


def ax_svs(v):
    def f(doc):
        doc["svs"] = v

    return f


def ax_objects(kind):
    def f(doc):
        if kind == "holds_only":
            doc["hos"] = [dict(StartTime=500, Lane=2, EndTime=900, KeySounds=[])]
        elif kind == "none":
            doc["hos"] = []
        elif kind == "two_holds":
            doc["hos"] = [dict(StartTime=500, Lane=2, EndTime=900, KeySounds=[]), dict(StartTime=250, Lane=1, EndTime=260, KeySounds=[])]

    return f


STRINGS = ["a: b", "# x", "- y", "yes", "123", "null", '"q"', "日本語", "two  spaces", "", "A\u2028B"]  # the last: a Unicode line separator inside a value


def ax_text(field, s):
    def f(doc):
        doc["meta"][field] = s

    return f


def ax_meta_num(doc):
    doc["meta"].update(MapId=5, MapSetId=77, SongPreviewTime=1234, HasScratchKey=False, BPMDoesNotAffectScrollVelocity=False, InitialScrollVelocity=1.5, Genre="g", Source="s", BackgroundFile="bg.png", BannerFile="bn.png", Description="d e")


def ax_times(kind):
    def f(doc):
        if not doc["hos"]:
            doc["hos"] = [dict(StartTime=500, Lane=2, KeySounds=[])]
        if kind == "negative":
            doc["hos"][0]["StartTime"] = -1500 if "EndTime" not in doc["hos"][0] else doc["hos"][0].get("StartTime", 0)
            doc["tps"][0]["StartTime"] = -2000
            if doc["svs"]:
                doc["svs"][0]["StartTime"] = -1
        elif "EndTime" not in doc["hos"][0]:
            doc["hos"][0]["StartTime"] = 2147483
            doc["tps"][0]["Bpm"] = 333.33
        else:
            doc["tps"][0]["Bpm"] = 333.33

    return f


def ax_extra_keys(doc):
    # keys that only some objects carry, as in real files (string hit sounds)
    doc["hos"].append(dict(StartTime=7000, Lane=1, HitSound="Whistle, Clap", KeySounds=[]))
    doc["hos"].append(dict(StartTime=7100, Lane=2, EndTime=7300, HitSound="Clap", KeySounds=[]))
    doc["hos"].append(dict(StartTime=7400, Lane=3, EndTime=7500, KeySounds=[]))


def ax_extra_int_keys(doc):
    doc["hos"].append(dict(StartTime=7000, Lane=1, EditorLayer=1, KeySounds=[]))
    doc["hos"].append(dict(StartTime=7100, Lane=2, KeySounds=[]))


def ax_extra_top(doc):
    doc["extra_top"] = {"LegacyLNRendering": False}


AXES = [
    ("mode", [("Keys7", ax_mode7)]),
    ("lane", [("1", ax_lane(1)), ("4", ax_lane(4))]),
    ("omit_start", [("hit", ax_omit("hit", "StartTime")), ("hold", ax_omit("hold", "StartTime")), ("tp", ax_omit("tp", "StartTime")), ("sv", ax_omit("sv", "StartTime"))]),
    ("omit_value", [("bpm", ax_omit("tp2", "Bpm")), ("multiplier", ax_omit("sv2", "Multiplier"))]),
    ("keysounds", [("omitted", ax_omit("hit", "KeySounds")), ("one", ax_keysounds([dict(Sample=1, Volume=80)])), ("hold-omitted", ax_omit("hold", "KeySounds"))]),
    ("svs", [("empty", ax_svs([])), ("absent", ax_svs(None)), ("two", ax_svs([dict(StartTime=100, Multiplier=2.0), dict(StartTime=100.5, Multiplier=-1.25)])), ("zero-multiplier", ax_svs([dict(StartTime=0, Multiplier=0.0), dict(StartTime=700, Multiplier=0)]))]),
    ("objects", [("holds_only", ax_objects("holds_only")), ("none", ax_objects("none")), ("two_holds", ax_objects("two_holds"))]),
    ("title", [(s or "<empty>", ax_text("Title", s)) for s in STRINGS]),
    ("artist", [(s or "<empty>", ax_text("Artist", s)) for s in ("a: b", "yes", "日本語")]),
    ("creator", [(s, ax_text("Creator", s)) for s in ("123", "null")]),
    ("difficulty", [(s, ax_text("DifficultyName", s)) for s in ("# x", "- y", "7K Another")]),
    ("tags", [("many", ax_text("Tags", "a b  c")), ("empty", ax_text("Tags", "")),
              # tags are separated by the ASCII space only: other white space belongs to the tag
              ("ideographic-space", ax_text("Tags", "東方\u3000Project b")), ("nbsp", ax_text("Tags", "feat.\u00a0x c"))]),
    ("meta_num", [("on", ax_meta_num)]),
    ("times", [("negative", ax_times("negative")), ("large", ax_times("large"))]),
    ("extra_keys", [("strings", ax_extra_keys), ("ints", ax_extra_int_keys)]),
    ("extra_top", [("on", ax_extra_top)]),
]


def el_hit(doc, slot):
    doc["hos"].append(dict(StartTime=1000 * slot, Lane=1 + slot % 4, KeySounds=[]))


def el_hold(length):
    def f(doc, slot):
        doc["hos"].append(dict(StartTime=1000 * slot + 250, Lane=1 + (slot + 1) % 4, EndTime=1000 * slot + 250 + length, KeySounds=[]))

    return f


def el_tp(doc, slot):
    doc["tps"].append(dict(StartTime=2000 * slot, Bpm=60 + 30.5 * slot))


def el_sv(doc, slot):
    doc["svs"] = (doc["svs"] or []) + [dict(StartTime=300 * slot + 7, Multiplier=0.5 * slot)]


ELEMENTS = [("hit", el_hit), ("hold1", el_hold(1)), ("hold750", el_hold(750)), ("tp", el_tp), ("sv", el_sv)]


# ------------------------------------------------------------------------------------------------- my YAML emitter
def q(s):
    """Quote a string the way a careful emitter would: single quotes whenever a plain scalar could be misread."""
    plain_ok = s and all(c.isalnum() or c in " ._-/" for c in s) and s[0].isalpha() and s.lower() not in ("yes", "no", "true", "false", "null", "on", "off", "y", "n") and s == s.strip() and "  " not in s
    if plain_ok:
        return s
    return "'" + s.replace("'", "''") + "'"


def scalar(v):
    if isinstance(v, bool):
        return "true" if v else "false"
    if isinstance(v, (int, float)):
        return repr(v)
    return q(v)


def emit_list(key, items, out):
    if items is None:
        return
    if not items:
        out.append(f"{key}: []")
        return
    out.append(f"{key}:")
    for it in items:
        first = True
        for k, v in it.items():
            pre = "- " if first else "  "
            first = False
            if isinstance(v, list):
                if not v:
                    out.append(f"{pre}{k}: []")
                else:
                    out.append(f"{pre}{k}:")
                    for sub in v:
                        f2 = True
                        for kk, vv in sub.items():
                            out.append(("  - " if f2 else "    ") + f"{kk}: {scalar(vv)}")
                            f2 = False
            else:
                out.append(f"{pre}{k}: {scalar(v)}")
        if first:
            out.append("- {}")


def render(doc):
    out = []
    for k, v in doc["meta"].items():
        out.append(f"{k}: {scalar(v)}")
    for k, v in doc["extra_top"].items():
        out.append(f"{k}: {scalar(v)}")
    emit_list("TimingPoints", doc["tps"], out)
    emit_list("SliderVelocities", doc["svs"], out)
    emit_list("HitObjects", doc["hos"], out)
    return "\n".join(out) + "\n"


def denote(doc):
    from reamber.quaver import QuaBpm, QuaSv

    bpm_default = 120.0
    mult_default = 1.0
    hits = sorted((float(o.get("StartTime", 0)), o["Lane"] - 1, ks(o.get("KeySounds", []))) for o in doc["hos"] if "EndTime" not in o)
    holds = sorted((float(o.get("StartTime", 0)), o["Lane"] - 1, float(o["EndTime"] - o.get("StartTime", 0)), ks(o.get("KeySounds", []))) for o in doc["hos"] if "EndTime" in o)
    bpms = sorted((float(t.get("StartTime", 0)), float(t.get("Bpm", bpm_default))) for t in doc["tps"])
    svs = sorted((float(s.get("StartTime", 0)), float(s.get("Multiplier", mult_default))) for s in (doc["svs"] or []))
    m = doc["meta"]
    meta = dict(title=m.get("Title", ""), artist=m.get("Artist", ""), creator=m.get("Creator", ""), difficulty_name=m.get("DifficultyName", ""), mode=m.get("Mode", "Keys4"), audio_file=m.get("AudioFile", ""), tags=[x for x in m.get("Tags", "").split(" ") if x])
    for k, f in (("MapId", "map_id"), ("MapSetId", "map_set_id"), ("SongPreviewTime", "song_preview_time"), ("HasScratchKey", "has_scratch_key"), ("BPMDoesNotAffectScrollVelocity", "bpm_does_not_affect_scroll_velocity"), ("InitialScrollVelocity", "initial_scroll_velocity"), ("Genre", "genre"), ("Source", "source"), ("BackgroundFile", "background_file"), ("BannerFile", "banner_file"), ("Description", "description")):
        if k in m:
            meta[f] = m[k]
    return dict(hits=hits, holds=holds, bpms=bpms, svs=svs, meta=meta)


def ks(v):
    return repr(v if isinstance(v, list) else [])


def lib_den(m):
    def kk(v):
        return repr(v) if isinstance(v, list) else "<not a list: %r>" % (v,)

    hits = sorted((float(t), int(c), kk(k)) for t, c, k in zip(m.hits.offset.tolist(), m.hits.column.tolist(), m.hits.keysounds.tolist()))
    holds = sorted((float(t), int(c), float(l), kk(k)) for t, c, l, k in zip(m.holds.offset.tolist(), m.holds.column.tolist(), m.holds.length.tolist(), m.holds.keysounds.tolist()))
    bpms = sorted((float(t), float(b)) for t, b in zip(m.bpms.offset.tolist(), m.bpms.bpm.tolist()))
    svs = sorted((float(t), float(x)) for t, x in zip(m.svs.offset.tolist(), m.svs.multiplier.tolist()))
    return dict(hits=hits, holds=holds, bpms=bpms, svs=svs)


def same(a, b, tol):
    if len(a) != len(b):
        return False
    for x, y in zip(a, b):
        for u, v in zip(x, y):
            if isinstance(u, float) and isinstance(v, float):
                if not (abs(u - v) <= tol or (math.isnan(u) and math.isnan(v))):
                    return False
            elif u != v:
                return False
    return True


def bound(tier, seed):
    docs = builder.staircase(AXES, ELEMENTS, STAIRS[tier])
    return dict(stairs=[dict(max_deviations=k, max_depth=d) for k, d in STAIRS[tier]], axes={a: [l for l, _ in v] for a, v in AXES}, elements=[l for l, _ in ELEMENTS], documents=len(docs), in_memory_charts=len(INMEM), converter_routes=ROUTES)


CHUNK = 40
_DOCS = {}


def _docs(tier):
    if tier not in _DOCS:
        _DOCS[tier] = builder.staircase(AXES, ELEMENTS, STAIRS[tier])
    return _DOCS[tier]


def roots(tier, seed):
    n = len(_docs(tier))
    return [dict(kind="large", n=k) for k in LARGE[tier]] + [dict(kind="inmem"), dict(kind="routes")] + [dict(kind="docs", start=s, stop=min(n, s + CHUNK)) for s in range(0, n, CHUNK)]


def explore(root, tier, ctx):
    if root["kind"] == "large":
        check((), (), ctx, large=root["n"])
    elif root["kind"] == "inmem":
        for i in range(len(INMEM)):
            check_inmem(i, ctx)
    elif root["kind"] == "routes":
        for r in ROUTES:
            check_route(r, ctx)
    else:
        docs = _docs(tier)
        for i in range(root["start"], root["stop"]):
            devs, seq = docs[i]
            check(devs, seq, ctx)


def replay(case, ctx):
    if "inmem" in case:
        check_inmem(case["inmem"], ctx)
    elif "route" in case:
        check_route(case["route"], ctx)
    else:
        check(tuple(tuple(x) for x in case["devs"]), tuple(case["seq"]), ctx, large=case.get("large"))


LARGE = dict(quick=[40, 2500], thorough=[40, 2500, 10000])


def large_doc(n):
    """size: n hit objects 125 ms apart over 7 lanes (every 6th a hold, every 9th with key sounds, every 10th with an editor
    layer), a tempo point every 40 objects, an SV every 15"""
    doc = default_doc()
    doc["meta"]["Mode"] = "Keys7"
    doc["hos"], doc["tps"], doc["svs"] = [], [], []
    for i in range(n):
        t = 125 * i
        o = dict(StartTime=t, Lane=1 + (i * 3) % 7, KeySounds=[] if i % 9 else [dict(Sample=1 + i % 5, Volume=10 + i % 90)])
        if i % 6 == 2:
            o["EndTime"] = t + 100
        if i % 10 == 7:
            o["EditorLayer"] = 1 + i % 3
        doc["hos"].append(o)
        if i % 40 == 0:
            doc["tps"].append(dict(StartTime=t, Bpm=[120, 90.5, 180, 60][(i // 40) % 4]))
        if i % 15 == 4:
            doc["svs"].append(dict(StartTime=t, Multiplier=0.5 + (i % 7) * 0.25))
    return doc


def check(devs, seq, ctx, large=None):
    from reamber.quaver import QuaMap

    if large:
        doc, lab = large_doc(large), dict(devs=[f"large={large}"], elems=[])
    else:
        doc = builder.build(default_doc, AXES, ELEMENTS, devs, seq)
        lab = builder.label(AXES, ELEMENTS, devs, seq)
    text = render(doc)
    den = denote(doc)
    case = dict(devs=[list(d) for d in devs], seq=list(seq), label=lab, text=text if len(text) < 4000 else text[:2000] + "\n...\n" + text[-1000:], large=large)
    ctx.case()
    ctx.state(("qua", devs, seq, large), nontrivial=bool(devs or seq or large))
    ctx.depth(len(seq))
    if len(ctx.samples) < 1 and len(devs) == 2:
        ctx.sample(dict(label=lab, text=text[-300:]))
    site = dict(devs=sorted({a for a in lab["devs"] if a.split("=")[0] in ("omit_start", "omit_value", "keysounds", "svs", "objects")}) or sorted({a.split("=")[0] for a in lab["devs"]}))
    ctx.transition()
    try:
        m = QuaMap.read(text.split("\n"))
    except Exception as e:
        ctx.check("read.raises", False, site=dict(site, exc=type(e).__name__), case=case, observed=f"{type(e).__name__}: {e}"[:300], expected="a chart")
        return
    ctx.passed("read.raises")
    if len(lab["devs"]) <= 1:
        # the file entry points: read_file of a file holding this text, write_file of the chart
        fileio.check_file_entry_points(ctx, "qua", text, m, canon.canon_map, dict(route="file-entry"), case)
    got = lib_den(m)
    ctx.outcome((tuple(got["hits"]), tuple(got["holds"])))
    for ln in ("hits", "holds", "bpms", "svs"):
        ctx.check("read.objects" if ln in ("hits", "holds") else "read.timing", same(got[ln], den[ln], 1e-9), site=dict(site, list=ln), case=case, observed=got[ln][:6], expected=den[ln][:6])
    bad = {k: (getattr(m, k, "<unset>"), v) for k, v in den["meta"].items() if getattr(m, k, "<unset>") != v}
    ctx.check("read.meta", not bad, site=dict(site, fields=sorted(bad)[:3]), case=case, observed={k: v[0] for k, v in bad.items()}, expected={k: v[1] for k, v in bad.items()})
    judge_write(m, got, dict(site, route="read"), case, ctx)


def judge_write(m, den, site, case, ctx):
    """write(m) must be a well-typed .qua denoting `den` (<1 ms); reading it back gives the same; a second generation too."""
    import yaml
    from reamber.quaver import QuaMap

    ctx.transition()
    try:
        text = m.write()
    except Exception as e:
        ctx.check("write.raises", False, site=dict(site, exc=type(e).__name__), case=case, observed=f"{type(e).__name__}: {e}"[:300], expected="a .qua text")
        return
    ctx.passed("write.raises")
    case = dict(case, written=text[-500:])
    # writing is an observation: the same object written again gives the same document (data equality)
    ctx.transition()
    try:
        again = m.write()
        ctx.check("write.repeatable", again == text or yaml.safe_load(again) == yaml.safe_load(text), site=dict(route=site.get("route")), case=case, observed=again[-500:], expected=text[-500:])
    except Exception as e:
        ctx.check("write.repeatable", False, site=dict(route=site.get("route"), exc=type(e).__name__), case=case, observed=f"{type(e).__name__}: {e}"[:300], expected="the same document")
    try:
        d = yaml.safe_load(text)
    except Exception as e:
        ctx.check("write.schema", False, site=dict(site, key="<document>", problem="not YAML"), case=case, observed=str(e)[:200], expected="a YAML mapping")
        return
    problems = schema_problems(d)
    for key, prob in problems:
        ctx.check("write.schema", False, site=dict(route=site.get("route"), key=key, problem=prob.split(":")[0]), case=case, observed=prob, expected="only the format's keys with the format's value types")
    if not problems:
        ctx.passed("write.schema")
    # denotation of the written document (by the format rules, from the YAML data)
    try:
        hos = d.get("HitObjects") or []
        w = dict(
            hits=sorted((float(o.get("StartTime", 0)), o["Lane"] - 1, ks(o.get("KeySounds", []))) for o in hos if "EndTime" not in o),
            holds=sorted((float(o.get("StartTime", 0)), o["Lane"] - 1, float(o["EndTime"] - o.get("StartTime", 0)), ks(o.get("KeySounds", []))) for o in hos if "EndTime" in o),
            bpms=sorted((float(t.get("StartTime", 0)), float(t["Bpm"])) for t in d.get("TimingPoints") or []),
            svs=sorted((float(s.get("StartTime", 0)), float(s["Multiplier"])) for s in d.get("SliderVelocities") or []),
        )
        for ln in ("hits", "holds", "bpms", "svs"):
            tol = 1.0 - 1e-9
            exp = den[ln]
            ok = same_notes(w[ln], exp) if ln in ("hits", "holds") else same_timing(w[ln], exp)
            ctx.check("write.denotes", ok, site=dict(site, list=ln), case=case, observed=w[ln][:6], expected=exp[:6])
    except Exception as e:
        ctx.check("write.denotes", False, site=dict(site, exc=type(e).__name__), case=case, observed=f"{type(e).__name__}: {e}"[:200], expected="objects with Lane/StartTime/EndTime")
    # read back
    ctx.transition()
    try:
        back = QuaMap.read(text.split("\n"))
        g2 = lib_den(back)
        for ln in ("hits", "holds"):
            ctx.check("rt.read_after_write", same_notes(g2[ln], den[ln]), site=dict(site, list=ln), case=case, observed=g2[ln][:6], expected=den[ln][:6])
        for ln in ("bpms", "svs"):
            ctx.check("rt.read_after_write", same_timing(g2[ln], den[ln]), site=dict(site, list=ln), case=case, observed=g2[ln][:6], expected=den[ln][:6])
        for f in ("title", "artist", "creator", "difficulty_name", "mode", "audio_file", "tags", "map_id", "song_preview_time", "genre", "source", "description"):
            a, b = getattr(back, f), getattr(m, f)
            if f == "tags":
                a, b = list(a or []), list(b or [])  # '' and [] both mean "no tags"
            okm = (abs(a - b) < 1.0) if f == "song_preview_time" and isinstance(a, (int, float)) and isinstance(b, (int, float)) else a == b
            ctx.check("rt.meta", okm, site=dict(site, field=f), case=case, observed=a, expected=b)
        # second generation: writing what was read back gives the same document (as data; key order inside a record is free)
        ctx.transition()
        t2 = back.write()
        ctx.check("rt.write_after_read", yaml.safe_load(t2) == d, site=site, case=case, observed=first_diff(text, t2), expected="second-generation document equal to the first")
    except Exception as e:
        ctx.check("rt.read_after_write", False, site=dict(site, exc=type(e).__name__), case=case, observed=f"{type(e).__name__}: {e}"[:300], expected="the written text is readable")


def matching(a, b, compatible):
    """True iff a perfect matching between the small lists a and b exists under `compatible` (backtracking)."""
    if len(a) != len(b):
        return False
    if len(a) > 30:
        # long lists: the order by time decides first (exact whenever compatible rows are further apart than the tolerance,
        # as in the generated large documents); only if that fails and the lists are still small enough, backtrack
        sa, sb = sorted(a, key=lambda x: (x[0], repr(x[1:]))), sorted(b, key=lambda x: (x[0], repr(x[1:])))
        if all(compatible(x, y) for x, y in zip(sa, sb)):
            return True
        if len(a) > 300:
            return False
    used = [False] * len(b)

    def go(i):
        if i == len(a):
            return True
        for j in range(len(b)):
            if not used[j] and compatible(a[i], b[j]):
                used[j] = True
                if go(i + 1):
                    return True
                used[j] = False
        return False

    return go(0)


def same_timing(a, b):
    """(time, value) lists: times within 1 ms, values relative 1e-9 (as multisets)."""
    return matching(a, b, lambda x, y: abs(x[0] - y[0]) < 1.0 and abs(x[1] - y[1]) <= 1e-9 * max(1.0, abs(y[1])))


def same_notes(a, b):
    """hit tuples (t, col, keysounds) / hold tuples (t, col, len, keysounds): same multiset with every time moved by < 1 ms."""

    def comp(x, y):
        if x[1] != y[1] or x[-1] != y[-1] or abs(x[0] - y[0]) >= 1.0:
            return False
        if len(x) == 4:
            # the tail (head + length) also moves by < 1 ms
            return abs((x[0] + x[2]) - (y[0] + y[2])) < 1.0
        return True

    return matching(a, b, comp)


def first_diff(a, b):
    la, lb = a.split("\n"), b.split("\n")
    for i, (x, y) in enumerate(zip(la, lb)):
        if x != y:
            return dict(line=i, first=x[:80], second=y[:80])
    return dict(lines=(len(la), len(lb)))


def schema_problems(d):
    out = []
    if not isinstance(d, dict):
        return [("<document>", "not a mapping")]

    def typed(v, t):
        if t is float:
            return isinstance(v, (int, float)) and not isinstance(v, bool) and math.isfinite(v)
        if t is int:
            return isinstance(v, int) and not isinstance(v, bool)
        if isinstance(t, tuple):
            return any(typed(v, x) for x in t)
        return isinstance(v, t)

    for k, v in d.items():
        if k not in TOP:
            out.append((k, "unknown key: top level"))
        elif not typed(v, TOP[k]):
            out.append((k, f"wrong type: {type(v).__name__} {v!r}"[:80]))
    for sec, table in (("TimingPoints", TP), ("SliderVelocities", SV), ("HitObjects", HO)):
        for it in d.get(sec) or []:
            if not isinstance(it, dict):
                out.append((sec, "wrong type: item is not a mapping"))
                continue
            for k, v in it.items():
                if k not in table:
                    out.append((f"{sec}.{k}", "unknown key: item"))
                elif not typed(v, table[k]):
                    out.append((f"{sec}.{k}", f"wrong type: {type(v).__name__} {v!r}"[:80]))
    return sorted(set(out))


# ------------------------------------------------------------------------------------------------- in-memory routes
def _inmem():
    out = []
    offs = [0.0, 0.4, 0.5, 0.999, -0.5, -1.5, 1e6 + 0.7, 250.25]
    lens = [0.6, 1.0, 250.25]
    for i, o in enumerate(offs):
        for j, l in enumerate(lens):
            out.append(dict(notes=[(o, i % 4, None), (o + 10, (i + 1) % 4, l)], bpms=[(o - 3.3, 90.5 + i)], svs=[(o + 0.25, [0.1, 10.0, -1.0][j])], keys=4 if i % 2 else 7))
    out.append(dict(notes=[], bpms=[(0.0, 120.0)], svs=[], keys=4))
    out.append(dict(notes=[(1.0, 6, None)], bpms=[(0.0, 1e-3), (5.5, 1e5)], svs=[], keys=7))
    return out


INMEM = _inmem()


def check_inmem(i, ctx):
    from mc import charts

    c = INMEM[i]
    case = dict(inmem=i, chart=c)
    ctx.case()
    ctx.state(("qua-mem", i), nontrivial=True)
    m = charts.make_map("qua", c["notes"], c["bpms"], c["svs"], meta=dict(title="t", artist="ar", creator="cr", difficulty_name="d", mode="Keys4" if c["keys"] == 4 else "Keys7", audio_file="a.mp3", initial_scroll_velocity=1.0))
    judge_write(m, lib_den(m), dict(route="constructor", devs=[]), case, ctx)


ROUTES = ["OsuToQua", "BMSToQua", "SMToQua", "O2JToQua", "OsuToQua/rate", "read/default-meta", "write/edit/write",
          # lists with non-default row labels (after a filter / a reverse sort) whose notes differ in their key sounds
          "constructor/gaps", "constructor/unsorted", "constructor/unsorted/sorted",
          # a chart whose notes carry optional keys on SOME objects only, after operations that rebuild the frames
          "read-sparse-keys/deepcopy", "read-sparse-keys/rate1", "read-sparse-keys/append",
          # a key carried by EVERY note (an integer column) until a note without it is appended (pandas upcasts the column)
          "read-dense-key/append-without"]


def check_route(route, ctx):
    from mc import charts
    from reamber.algorithms import convert as C
    from reamber.quaver import QuaMap

    case = dict(route=route)
    ctx.case()
    ctx.state(("qua-route", route), nontrivial=True)
    try:
        twin = None
        if route == "write/edit/write":
            # the expectation comes from a twin that gets the same edits but was never written before
            def edit(x):
                x.initial_scroll_velocity = 1.0
                x.hits.offset += 1000
                x.holds.length = x.holds.length * 2
                x.bpms.bpm = x.bpms.bpm * 2
            m, twin = starts.make("qua", "plain"), starts.make("qua", "plain")
            m.initial_scroll_velocity = 1.0
            m.write()
            edit(m)
            edit(twin)
        elif route.startswith("read-sparse-keys/"):
            d0 = default_doc()
            d0["hos"] = [dict(StartTime=500, Lane=2, KeySounds=[]), dict(StartTime=900, Lane=1, HitSound=2, KeySounds=[]), dict(StartTime=1500, Lane=3, EditorLayer=1, KeySounds=[]),
                         dict(StartTime=2000, Lane=4, EndTime=2600, KeySounds=[]), dict(StartTime=3000, Lane=1, EndTime=3300, HitSound=4, EditorLayer=2, KeySounds=[])]
            m = QuaMap.read(render(d0).split("\n"))
            m.initial_scroll_velocity = 1.0
            twin = QuaMap.read(render(d0).split("\n"))
            twin.initial_scroll_velocity = 1.0
            if route.endswith("deepcopy"):
                m = m.deepcopy()
            elif route.endswith("rate1"):
                m = m.rate(1.0)
            else:
                m.hits = m.hits[0:1].append(m.hits[1:])
        elif route == "read-dense-key/append-without":
            from reamber.quaver import QuaHit
            from reamber.quaver.lists.notes import QuaHitList

            def mk():
                d0 = default_doc()
                d0["hos"] = [dict(StartTime=500, Lane=2, EditorLayer=1, KeySounds=[]), dict(StartTime=900, Lane=1, EditorLayer=2, KeySounds=[])]
                x = QuaMap.read(render(d0).split("\n"))
                x.initial_scroll_velocity = 1.0
                return x
            m, twin = mk(), mk()
            m.hits = m.hits.append(QuaHitList([QuaHit(4000, 2, [])]))
            twin.hits = twin.hits.append(QuaHitList([QuaHit(4000, 2, [])]))
        elif route.startswith("constructor/"):
            m = starts.make("qua", route.split("/")[1])
            m.initial_scroll_velocity = 1.0
            if route.endswith("/sorted"):
                m.hits, m.holds = m.hits.sorted(), m.holds.sorted()
        elif route == "OsuToQua":
            m = C.OsuToQua.convert(starts.make("osu", "plain"))
        elif route == "OsuToQua/rate":
            m = C.OsuToQua.convert(starts.make("osu", "plain").rate(1.5))
        elif route == "BMSToQua":
            m = C.BMSToQua.convert(starts.make("bms", "plain"))
        elif route == "SMToQua":
            m = C.SMToQua.convert(charts.make_mapset("sm", [starts.make("sm", "plain")], dict(title="t", artist="a", offset=0.0)))[0]
        elif route == "O2JToQua":
            m = C.O2JToQua.convert(charts.make_mapset("o2j", [starts.make("o2j", "plain")], dict(title="t", artist="a", level=[1, 2, 3])))[0]
        else:
            m = QuaMap.read(starts.QUA_TEXT.split("\n"))
    except Exception as e:
        ctx.check("setup", False, site=dict(route=route, exc=type(e).__name__), case=case, observed=f"{type(e).__name__}: {e}"[:300], expected="a Quaver chart")
        return
    judge_write(m, lib_den(twin if twin is not None else m), dict(route=route, devs=[]), case, ctx)
