"""C09 — read -> convert -> write yields a valid target file with the source's timeline.

Composition search: abstract timeline charts (key count, first tempo point, tempo changes on measure lines, notes on a beat grid)
are rendered as source files of each of the five games by my renderers/encoders, read by the real reader, converted by every
applicable converter, written by the real writer, and the written file is interpreted by the independent reference parser of the
target format and compared with the abstract chart."""
from __future__ import annotations

import itertools
from fractions import Fraction as F

from mc import charts
from refs import bms as rb
from refs import ojn as rj
from refs import osu as ro
from refs import sm as rs

ID = "C09"
LARGE = "abstract charts of 300 notes (4 and 7 keys) through every source x converter"
TITLE = "Read -> convert -> write yields a valid target file with the source's timeline"
RULE = (
    "composition search: a state is a distinct (abstract chart, source game, converter); a transition is one read / convert / write; "
    "non-trivial = the chart has a hold and either a tempo change or a first tempo point away from 0 ms"
)
ASSUMPTIONS = [
    "two tempo points at one time in an osu / Quaver source: the later line is in force (refs/sm.py applies the same rule to duplicate #BPMS beats of the written file)",
    "source files lie in the intersection of the formats' domains: tempo changes on 4/4 measure lines counted from the first tempo point, notes on the quarter-beat grid (integer milliseconds at 60/120/240 bpm), non-negative times",
    "tolerance = coarser of the two formats: 1 ms for osu/Quaver, plus 1/192 beat at the slowest tempo when StepMania or BMS is involved",
    "BMS has no global offset: for BMS targets whose source starts away from 0 ms, times are compared relative to the first tempo point (DESIGN 7.9)",
    "column shifts are the converters' documented defaults (O2JToBMS moves right by 1)",
    "target validity = the syntax/schema clauses of C01/C03/C05/C06 evaluated by the reference parsers",
]
TECHNIQUE = "exhaustive composition of generated source files x all 16 converters through the real readers, converters and writers; written target interpreted by independent reference parsers and compared with the abstract source chart"
LEVEL_TEXT = (
    "Abstract charts: key counts 4/7 (+6 and 8 for StepMania sources, 7 for O2Jam) x first tempo point at 0 / 341 ms x tempo lists (one; a "
    "change on a measure line; two changes) x note layouts (hits; hits and holds; hold across the tempo change; chord; every column) x SVs "
    "for osu/Quaver (and a 3/4 meter on later .osu timing points), rendered as .osu/.qua/.sm/BMS/.ojn sources -- the three O2Jam "
    "difficulties and the two charts of a .sm file each carry different notes; every source x every converter to a writable game (osu, Quaver, StepMania, "
    "BMS; with the move_right_by defaults): target file valid, objects (kind, column, time, length) and tempo step function equal to the "
    "source's within the coarser resolution."
)
LEVEL_NOTE = "Bounded: <=6 notes per chart, 3 tempo lists. Conversions whose target cannot hold the key count must refuse with ValueError."

BPM_LISTS = {"one": [(F(0), 120)], "change": [(F(0), 120), (F(8), 60)], "two": [(F(0), 120), (F(4), 240), (F(12), 60)],
             # two tempo points at one time (osu / Quaver sources only): the later line is the one in force
             "tie": [(F(0), 120), (F(4), 240), (F(4), 60)]}
LAYOUTS = {
    "hits": [(F(1), 0, None), (F(5, 2), -1, None), (F(9), 1, None)],
    "holds": [(F(1), 0, None), (F(4), 1, F(2)), (F(9), 2, None), (F(10), -1, F(1, 2))],
    "across": [(F(0), 0, None), (F(7), 1, F(5, 2)), (F(13), 2, None)],
    "chord": [(F(2), 0, None), (F(2), -1, None), (F(2), 1, None), (F(17, 4), 2, None)],
    "allcols": "all",
    # odd snaps sharing a measure (7ths with a triplet; 5ths with 9ths): every row index a writer computes for such a mix
    "sevenths+triplet": [(F(17, 7), 0, None), (F(7, 3), 1, None), (F(1), 2, None), (F(3, 7), -1, None)],
    "fifths+ninths": [(F(7, 5), 0, None), (F(14, 5), 1, None), (F(23, 9), 2, None), (F(4, 9), -1, None)],
    # only the two lowest columns in use: the key count must come from what the source declares, not from the columns in use
    "lowcols": [(F(1), 0, None), (F(2), 1, F(1, 2))],
}


ATOM_BEATS = [F(0), F(1, 2), F(1), F(3), F(8), F(19, 2)]
ATOM_COLS = [0, 1, -1]
ATOM_KINDS = [None, F(1, 2), F(6)]
_CHARTS = {}


def abstract_charts(tier="thorough"):
    """quick: the hand-picked layouts; thorough: those, then every chart of one or two notes over the atom alphabet
    (6 beats x 3 columns x hit/short hold/hold across tempo changes), for 4 and 7 keys, both first-tempo times, 3 tempo lists.
    The quick list is a prefix of the thorough one, so a chart index means the same in both."""
    if tier not in _CHARTS:
        out = _picked_charts()
        if tier == "thorough":
            atoms = [(b, c, l) for b in ATOM_BEATS for c in ATOM_COLS for l in ATOM_KINDS]
            sets = [(a,) for a in atoms]
            for x, y in itertools.combinations(atoms, 2):
                if x[1] == y[1]:
                    (b1, _, l1), (b2, _, l2) = sorted([x, y], key=lambda n: n[0])
                    if b1 + (l1 or 0) >= b2:
                        continue  # two objects of one column may not touch
                sets.append((x, y))
            for keys in (4, 7):
                for t0 in (0, 341):
                    for bn, bl in BPM_LISTS.items():
                        for k, ns in enumerate(sets):
                            notes = [(b, c if c >= 0 else keys - 1, l) for b, c, l in ns]
                            out.append(dict(keys=keys, t0=t0, bpms=bl, notes=notes, name=f"{keys}k/t0={t0}/{bn}/set{k}"))
        _CHARTS[tier] = out
    return _CHARTS[tier]


def _picked_charts():
    out = []
    # size: 300 notes on the half-beat grid (every 6th a hold of a quarter beat), 4 and 7 keys, tempo changes at beats 4 and 12
    for keys in (4, 7):
        notes = [(F(i, 2), (i * 3) % keys, F(1, 4) if i % 6 == 3 else None) for i in range(300)]
        out.append(dict(keys=keys, t0=0, bpms=BPM_LISTS["two"], notes=notes, name=f"{keys}k/t0=0/two/large300"))
    for keys in (4, 7, 6, 8, 16):
        for t0 in (0, 341):
            for bn, bl in BPM_LISTS.items():
                for ln, lay in LAYOUTS.items():
                    if keys in (6, 8, 16) and (bn != "change" or ln not in ("holds", "allcols")):
                        continue
                    notes = [(F(1 + c), c, None if c % 2 else F(1, 2)) for c in range(keys)] if lay == "all" else [(b, c if c >= 0 else keys - 1, l) for b, c, l in lay]
                    out.append(dict(keys=keys, t0=t0, bpms=bl, notes=notes, name=f"{keys}k/t0={t0}/{bn}/{ln}"))
                    if keys == 4 and bn != "one" and ln in ("holds", "across"):
                        # the same chart with a 3/4 meter on the later timing points of the osu source (times in ms are unaffected)
                        out.append(dict(keys=keys, t0=t0, bpms=bl, notes=notes, name=f"{keys}k/t0={t0}/{bn}/{ln}/meter3", meter=3))
    return out


def times(ch):
    segs = []
    for i, (b, v) in enumerate(ch["bpms"]):
        if i == 0:
            segs.append((b, F(ch["t0"]), F(v)))
        else:
            p0, t0, v0 = segs[-1]
            segs.append((b, t0 + (b - p0) * F(60000) / v0, F(v)))

    def T(beat):
        s = [x for x in segs if x[0] <= beat][-1]
        return s[1] + (beat - s[0]) * F(60000) / s[2]

    return T, segs


def denote(ch):
    T, segs = times(ch)
    notes = sorted((float(T(b)), c, None if l is None else float(T(b + l) - T(b))) for b, c, l in ch["notes"])
    return dict(notes=notes, tempo=[(float(s[1]), float(s[2])) for s in segs], keys=ch["keys"])


# ------------------------------------------------------------------------------------------------- source renderers
def src_osu(ch):
    T, segs = times(ch)
    d = ro.default_doc()
    d["keys"] = ch["keys"]
    d["tps"] = [dict(time=str(int(s[1])), bl=repr(float(F(60000) / s[2])), meter=4 if i == 0 else ch.get("meter", 4), ss=1, si=0, vol=50, un=1, fx=0) for i, s in enumerate(segs)]
    d["tps"].append(dict(time=str(int(T(F(3)))), bl="-50", meter=4, ss=1, si=0, vol=50, un=0, fx=0))
    d["objs"] = []
    for b, c, l in ch["notes"]:
        o = dict(kind="hit" if l is None else "hold", col=c, xmode="centre", time=int(T(b)), hs=0, ss=0, ads=0, ci=0, vol=0, file="")
        if l is not None:
            o["end"] = int(T(b + l))
        d["objs"].append(o)
    return ro.render(d)


def src_qua(ch):
    from props import c06

    T, segs = times(ch)
    doc = c06.default_doc()
    doc["meta"]["Mode"] = "Keys4" if ch["keys"] == 4 else "Keys7"
    doc["tps"] = [dict(StartTime=int(s[1]), Bpm=float(s[2])) for s in segs]
    doc["svs"] = [dict(StartTime=int(T(F(3))), Multiplier=2.0)]
    doc["hos"] = []
    for b, c, l in ch["notes"]:
        o = dict(StartTime=int(T(b)), Lane=c + 1, KeySounds=[])
        if l is not None:
            o["EndTime"] = int(T(b + l))
        doc["hos"].append(o)
    return c06.render(doc).split("\n")


SM_TYPE = {4: "dance-single", 7: "kb7-single", 6: "dance-solo", 8: "dance-double", 3: "dance-threepanel"}


def src_sm(ch):
    charts_ = []
    for vi, v in enumerate(variants(ch, "sm")):
        charts_.append(dict(type=SM_TYPE[ch["keys"]], desc=f"d{vi}", diff=["Hard", "Easy"][vi], meter=str(7 - vi), radar="0,0,0,0,0", measures=_sm_measures(v)))
    doc = dict(
        header=dict(TITLE="t", ARTIST="a", CREDIT="c", MUSIC="m.ogg", SAMPLESTART="1.000", SAMPLELENGTH="10.000", SELECTABLE="YES"),
        offset=f"{-ch['t0'] / 1000:.3f}",
        bpms=[(f"{float(b):.3f}", f"{float(v):.3f}") for b, v in ch["bpms"]],
        stops="empty",
        charts=charts_,
    )
    return rs.render(doc).split("\n")


def _sm_measures(ch):
    measures = {}
    for b, c, l in ch["notes"]:
        evs = [(b, "1")] if l is None else [(b, "2"), (b + l, "3")]
        for bb, sym in evs:
            mi, pos = int(bb // 4), (bb % 4) / 4
            measures.setdefault(mi, {})[(pos, c)] = sym
    nm = max(measures) + 1
    ms = []
    for mi in range(nm):
        cells = measures.get(mi, {})
        R = 4
        import math

        for (pos, c) in cells:
            R = R * pos.denominator // math.gcd(R, pos.denominator)
        ms.append(dict(rows=R, cells={(int(pos * R), c): s for (pos, c), s in cells.items()}))
    return ms


def src_bms(ch):
    """BME layout: column c -> lane c (column 0 is the scratch lane 16)."""
    import math

    chans = sorted(rb.LAYOUTS["BME"], key=lambda k: rb.LAYOUTS["BME"][k])
    lines = ["#TITLE t", "#ARTIST a", "#PLAYLEVEL 7", f"#BPM {ch['bpms'][0][1]}", "#LNOBJ ZZ", "#WAV01 a.wav"]
    for i, (b, v) in enumerate(ch["bpms"][1:], 1):
        lines.append(f"#BPM{i:02d} {v}")
    groups = {}
    for i, (b, v) in enumerate(ch["bpms"][1:], 1):
        groups.setdefault((int(b // 4), "08"), []).append(((b % 4) / 4, f"{i:02d}"))
    for b, c, l in ch["notes"]:
        groups.setdefault((int(b // 4), chans[c]), []).append(((b % 4) / 4, "01"))
        if l is not None:
            e = b + l
            groups.setdefault((int(e // 4), chans[c]), []).append(((e % 4) / 4, "ZZ"))
    for (m, chn), evs in sorted(groups.items()):
        n = 1
        for p, _ in evs:
            n = n * p.denominator // math.gcd(n, p.denominator)
        seq = ["00"] * n
        for p, v in evs:
            seq[int(p * n)] = v
        lines.append(f"#{m:03d}{chn}:" + "".join(seq))
    return lines


def src_ojn(ch):
    h = dict(rj.HEADER_DEFAULT)
    h["bpm"] = float(ch["bpms"][0][1])
    return rj.encode(dict(header=h, diffs=[_ojn_packages(v) for v in variants(ch, "o2j")]))


def _ojn_packages(ch):
    import math

    groups = {}
    for b, v in ch["bpms"][1:]:
        groups.setdefault((int(b // 4), 1), []).append(((b % 4) / 4, ("b", float(v))))
    for b, c, l in ch["notes"]:
        if l is None:
            groups.setdefault((int(b // 4), c + 2), []).append(((b % 4) / 4, ("n", 0)))
        else:
            e = b + l
            groups.setdefault((int(b // 4), c + 2), []).append(((b % 4) / 4, ("n", 2)))
            groups.setdefault((int(e // 4), c + 2), []).append(((e % 4) / 4, ("n", 3)))
    pk = []
    for (m, chn), evs in sorted(groups.items()):
        n = 1
        for p, _ in evs:
            n = n * p.denominator // math.gcd(n, p.denominator)
        slots = [None] * n
        for p, v in evs:
            slots[int(p * n)] = v
        pk.append(dict(measure=m, channel=chn, slots=slots))
    return pk


def variants(ch, game):
    """The charts a source file of `game` carries: O2Jam files have three difficulties, StepMania files here two charts,
    each different (shifted by one measure / truncated) so that a converter reading the wrong chart is visible."""
    if game == "o2j":
        return [ch, dict(ch, notes=[(b + 4, c, l) for b, c, l in ch["notes"]]), dict(ch, notes=ch["notes"][:2])]
    if game == "sm":
        return [ch, dict(ch, notes=[(b + 4, c, l) for b, c, l in ch["notes"]][::-1])]
    return [ch]


def sources_for(ch):
    if ch.get("meter"):
        return ["osu"]
    if len({b for b, _ in ch["bpms"]}) < len(ch["bpms"]):
        return ["osu", "qua"] if ch["keys"] in (4, 7) else []
    out = []
    if ch["keys"] == 16:
        # the widest BME layout (double play): only osu (<= 18 keys) and BMS can hold it; the other targets must refuse
        return ["osu"] + (["bms"] if ch["t0"] == 0 else [])
    if ch["keys"] in (4, 7):
        out += ["osu", "qua"]
    out.append("sm")
    if ch["t0"] == 0:
        if ch["keys"] <= 8:
            out.append("bms")
        if ch["keys"] == 7:
            out.append("o2j")
    return out


def read_source(game, ch):
    if game == "osu":
        from reamber.osu import OsuMap

        return OsuMap.read(src_osu(ch))
    if game == "qua":
        from reamber.quaver import QuaMap

        return QuaMap.read(src_qua(ch))
    if game == "sm":
        from reamber.sm import SMMapSet

        return SMMapSet.read(src_sm(ch))
    if game == "bms":
        from reamber.bms import BMSMap

        return BMSMap.read(src_bms(ch))
    from reamber.o2jam import O2JMapSet

    return O2JMapSet.read(src_ojn(ch))


def converters(game):
    from reamber.algorithms import convert as C

    return {
        "osu": [("OsuToBMS", C.OsuToBMS.convert, "bms", 0), ("OsuToQua", C.OsuToQua.convert, "qua", 0), ("OsuToSM", C.OsuToSM.convert, "sm", 0)],
        "qua": [("QuaToBMS", C.QuaToBMS.convert, "bms", 0), ("QuaToOsu", C.QuaToOsu.convert, "osu", 0), ("QuaToSM", C.QuaToSM.convert, "sm", 0)],
        "bms": [("BMSToOsu", C.BMSToOsu.convert, "osu", 0), ("BMSToQua", C.BMSToQua.convert, "qua", 0), ("BMSToSM", C.BMSToSM.convert, "sm", 0)],
        "sm": [("SMToBMS", C.SMToBMS.convert, "bms", 0), ("SMToOsu", C.SMToOsu.convert, "osu", 0), ("SMToQua", C.SMToQua.convert, "qua", 0)],
        "o2j": [("O2JToBMS", C.O2JToBMS.convert, "bms", 1), ("O2JToOsu", C.O2JToOsu.convert, "osu", 0), ("O2JToQua", C.O2JToQua.convert, "qua", 0), ("O2JToSM", C.O2JToSM.convert, "sm", 0)],
    }[game]


def bound(tier, seed):
    cs = abstract_charts(tier)
    return dict(abstract_charts=len(cs), triples=sum(len(converters(g)) for c in cs for g in sources_for(c)), key_counts=[4, 7, 6, 8, 16], first_tempo_points=[0, 341], tempo_lists=list(BPM_LISTS), note_layouts=list(LAYOUTS),
                combinatorial=None if tier == "quick" else dict(notes_per_chart="1..2", beats=[str(b) for b in ATOM_BEATS], columns=["0", "1", "last"], kinds=["hit", "hold 1/2 beat", "hold 6 beats"], keys=[4, 7]))


def roots(tier, seed):
    n = len(abstract_charts(tier))
    chunk = 2 if tier == "quick" else 24
    return [dict(start=a, stop=min(n, a + chunk)) for a in range(0, n, chunk)]


def explore(root, tier, ctx):
    cs = abstract_charts(tier)
    for i in range(root["start"], root["stop"]):
        for g in sources_for(cs[i]):
            for name, fn, tg, shift in converters(g):
                check(i, g, name, ctx)


def replay(case, ctx):
    check(case["chart"], case["source"], case["converter"], ctx)


def target_can_hold(tg, keys):
    if tg == "qua":
        return keys in (4, 7)
    if tg == "sm":
        return keys in (3, 4, 6, 7, 8)
    return True


def parse_target(tg, t):
    """Writes the converted chart and interprets the file with the target's reference parser.
    Returns (notes [(t, col, len|None)], tempo [(t, bpm)], problems [str], keys or None)."""
    if tg == "osu":
        lines = t.write()
        try:
            p = ro.parse(lines)
        except ro.Malformed as e:
            return None, None, [f"malformed .osu: {e}"[:160]], None
        notes = [(h["offset"], h["column"], None) for h in p["hits"]] + [(h["offset"], h["column"], h["length"]) for h in p["holds"]]
        return notes, [(b["offset"], b["bpm"]) for b in p["bpms"]], [], int(p["meta"]["circle_size"])
    if tg == "qua":
        import yaml
        from props import c06

        d = yaml.safe_load(t.write())
        probs = [f"{k}: {v}" for k, v in c06.schema_problems(d) if k != "InitialScrollVelocity"]
        hos = d.get("HitObjects") or []
        notes = [(float(o.get("StartTime", 0)), o["Lane"] - 1, float(o["EndTime"] - o.get("StartTime", 0)) if "EndTime" in o else None) for o in hos]
        return notes, [(float(x.get("StartTime", 0)), float(x["Bpm"])) for x in d.get("TimingPoints") or []], probs, {"Keys4": 4, "Keys7": 7}.get(d.get("Mode"))
    if tg == "sm":
        p = rs.parse(t.write())
        if not p["charts"]:
            return None, None, p["syntax"] or ["no chart"], None
        c = p["charts"][0]
        notes = [(tt, col, None if k == "hit" else ln) for k, col, tt, ln in c["objs"]]
        return notes, p["tempo"], p["syntax"], rs.KEYS.get(c["meta"]["type"])
    if tg == "bms":
        p = rb.parse(t.write(), "BME")
        notes = [(tt, c, None) for c, tt, w in p["hits"]] + [(tt, c, ln) for c, tt, ln, w in p["holds"]]
        return notes, p["tempo"], p["syntax"], None


def check(ci, g, name, ctx):
    ch = abstract_charts()[ci]
    fn, tg, shift = next((f, t, s) for n, f, t, s in converters(g) if n == name)
    den = denote(ch)
    case = dict(chart=ci, chart_name=ch["name"], source=g, converter=name)
    hold = any(l is not None for _, _, l in ch["notes"])
    ctx.case()
    ctx.state(("c09", ci, g, name), nontrivial=hold and (len(ch["bpms"]) > 1 or ch["t0"] != 0))
    if len(ctx.samples) < 1 and hold and ch["t0"]:
        ctx.sample(case)
    site = dict(converter=name, keys=ch["keys"], first_tempo_at_0=ch["t0"] == 0)
    ctx.transition()
    try:
        src = read_source(g, ch)
    except Exception as e:
        ctx.check("source.read", False, site=dict(source=g, exc=type(e).__name__, keys=ch["keys"]), case=case, observed=f"{type(e).__name__}: {e}"[:300], expected="the generated source file is readable")
        return
    ctx.passed("source.read")
    ctx.transition()
    try:
        res = fn(src)
    except ValueError as e:
        # BMS and O2Jam files carry no key count: the converter can only see the columns in use
        seen = max(c for _, c, _ in ch["notes"]) + 1
        ctx.check("refusal.justified", not target_can_hold(tg, ch["keys"]) or (g in ("bms", "o2j") and not target_can_hold(tg, seen)), site=site, case=case, observed=f"ValueError: {e}"[:200], expected="conversion, the target supports this key count")
        return
    except Exception as e:
        ctx.check("convert.raises", False, site=dict(site, exc=type(e).__name__), case=case, observed=f"{type(e).__name__}: {e}"[:300], expected="converted chart")
        return
    ctx.passed("convert.raises")
    results = res if isinstance(res, list) else [res]
    vs = variants(ch, g)
    if name == "O2JToSM_merge":
        results = [results[0]]
    if tg == "sm" and len(results) == 1 and hasattr(results[0], "maps") and len(results[0].maps) > 1:
        ctx.extra["multi_chart_sm_result_first_chart_only"] += 1
    if not ctx.check("charts.count", len(results) == len(vs), site=site, case=case, observed=len(results), expected=len(vs)):
        return
    for vi, (t, v) in enumerate(zip(results, vs)):
        judge_target(ctx, tg, t, v, denote(v), g, shift, dict(site, chart=vi) if len(vs) > 1 else site, dict(case, chart_index=vi))


def judge_target(ctx, tg, t, ch, den, g, shift, site, case):
    ctx.transition()
    try:
        notes, tempo, probs, tkeys = parse_target(tg, t)
    except Exception as e:
        ctx.check("write.raises", False, site=dict(site, exc=type(e).__name__), case=case, observed=f"{type(e).__name__}: {e}"[:300], expected="a target file")
        return
    ctx.passed("write.raises")
    ctx.check("target.valid", not probs, site=dict(site, problem=(probs[0].split(":")[0][:50] if probs else "")), case=case, observed=probs[:4], expected="a file valid in the target format")
    if notes is None:
        return
    if tkeys is not None:
        # informational: converters infer the key count from the highest column used (the property speaks of objects and columns)
        ctx.extra["target_key_count_equal" if tkeys == ch["keys"] else "target_key_count_differs"] += 1
    slow = min(b for _, b in den["tempo"])
    # resolution of the coarser format: 1 ms (osu, Quaver, O2Jam times), 1/192 beat (BMS as written by the library), and for
    # StepMania 1/96 beat - the writer lays positions that fit no supported measure subdivision on a 96-per-beat grid (as in C03)
    tol = 1.0 + (60000.0 / slow / 96.0 if "sm" in (g, tg) else 60000.0 / slow / 192.0 if "bms" in (g, tg) else 0.0)
    base_s = den["tempo"][0][0] if tg == "bms" else 0.0
    exp = sorted((tt - base_s, c + shift, l) for tt, c, l in den["notes"])
    got = sorted((tt, c, l) for tt, c, l in notes)
    ctx.outcome(tuple((round(a, 3), b) for a, b, _ in got))
    ok = len(got) == len(exp) and all(a[1] == b[1] and (a[2] is None) == (b[2] is None) and abs(a[0] - b[0]) <= tol and (a[2] is None or abs(a[2] - b[2]) <= 2 * tol) for a, b in zip(sorted(got, key=lambda x: (x[1], x[0])), sorted(exp, key=lambda x: (x[1], x[0]))))
    ctx.check("objects", ok, site=site, case=case, observed=got[:8], expected=exp[:8])
    gt = rb.step(tempo)
    et = rb.step([(tt - base_s, b) for tt, b in den["tempo"]])
    okt = len(gt) == len(et) and all(abs(a[0] - b[0]) <= tol and abs(a[1] - b[1]) <= 1e-3 * b[1] for a, b in zip(gt, et))
    ctx.check("tempo.timeline", okt, site=site, case=case, observed=gt, expected=et)
