"""C04 — BMS reading places every object at the time its measure position and tempo imply.

Builder-graph search over abstract BMS documents (header choices + events placed at measure positions, rendered into '#mmmcc:' lines
with chosen subdivisions and line orders), read by the real BMSMap.read under all five channel layouts and compared with the
denotation known by construction (exact Fraction integration; the LN end closes the preceding object in time of its lane)."""
from __future__ import annotations

import math
from fractions import Fraction as F

from mc import builder, canon, fileio
from refs import bms as rb

ID = "C04"
TITLE = "BMS reading places every object at the time its measure position and tempo imply"
RULE = (
    "builder graph: a state is a distinct abstract BMS document (deviation set x element sequence) or a (layout, lane) probe; a "
    "transition is one BMSMap.read of its rendering; non-trivial = at least one deviation or appended element"
)
ASSUMPTIONS = [
    "4 beats per measure (channel 02 is not generated); tolerance 1e-6 ms against exact rational integration",
    "ids of #WAV/#LNOBJ/#BPMxx are upper case; channel-03 hex values are exercised in both cases",
    "the chart's tempo list is not compared (reseating rewrites bpm values; C11 covers what it must preserve)",
    "an object id without a #WAV line carries the empty sample",
]
TECHNIQUE = "builder-graph search over abstract BMS documents (deviation- and depth-bounded, 5 channel layouts, line-order permutations) driven through the real reader; denotation known by construction, times by exact Fraction integration"
LEVEL_TEXT = (
    "Every (layout, lane) of BMS/BME/PMS/PMS_BME/PMS_5B; every BME document with <=2 (quick) / <=3 (thorough) deviations over 11 axes "
    "(other layouts, header tempo, measure 1/2/5, subdivision 2..96, channel-03 changes incl. at (0,0), mid-measure and lower-case hex, "
    "channel-08 extended changes, #LNOBJ holds within a line / across measures, unknown #WAV id, line order reversed / tempo lines last / "
    "by channel, one measure+channel split over two lines, extra headers) combined with element sequences (notes on other lanes and "
    "measures, holds, further tempo changes) up to depth 2/3; clauses: hit and hold times, hold length, column, sample, LN pairing, "
    "retained header fields."
)
LEVEL_NOTE = "Bounded palettes; time signatures (channel 02) and stops (channel 09) are outside the property and not generated."

STAIRS = dict(quick=[(2, 2), (1, 3), (0, 4)], thorough=[(3, 2), (2, 3), (1, 4)])
TOL = 1e-6
LANE_CH = {name: sorted(tab, key=lambda c: tab[c]) for name, tab in rb.LAYOUTS.items()}  # channel codes by column


def default_doc():
    return dict(
        layout="BME",
        header=dict(TITLE="t", ARTIST="a", PLAYLEVEL="7", BPM="120"),
        misc={},
        lnobj=None,
        wav={"01": "a.wav", "02": "b.wav"},
        exbpm={},
        # events: (measure, pos Fraction, kind, lane or None, value) ; kind in note / ln_end / t03 / t08
        events=[(0, F(0), "note", 1, "01")],
        subdiv=None,  # forced subdivision of the lines of the default note's measure
        order="sorted",
        split=False,
        lower=False,
    )


def _first(doc):
    return doc["events"][0]


def ax_layout(name):
    def f(doc):
        doc["layout"] = name
        m, p, k, lane, v = _first(doc)
        doc["events"][0] = (m, p, k, len(LANE_CH[name]) - 1, v)

    return f


def ax_bpm(v):
    def f(doc):
        doc["header"]["BPM"] = v

    return f


def ax_measure(m):
    def f(doc):
        _, p, k, lane, v = _first(doc)
        doc["events"][0] = (m, p, k, lane, v)

    return f


def ax_subdiv(n):
    def f(doc):
        m, _, k, lane, v = _first(doc)
        doc["events"][0] = (m, F(n - 1, n), k, lane, v)

    return f


def ax_t03(evs, lower=False):
    def f(doc):
        for m, p, v in evs:
            doc["events"].append((m, p, "t03", None, v))
        doc["lower"] = lower
        doc["events"].append((3, F(1, 2), "note", 2, "02"))

    return f


def ax_t08(evs, table):
    def f(doc):
        doc["exbpm"].update(table)
        for m, p, v in evs:
            doc["events"].append((m, p, "t08", None, v))
        doc["events"].append((3, F(1, 4), "note", 2, "02"))

    return f


def ax_ln(end_m, end_p, obj="ZZ"):
    def f(doc):
        doc["lnobj"] = obj
        m, p, k, lane, v = _first(doc)
        doc["events"].append((m + end_m, end_p, "ln_end", lane, None))

    return f


def ax_wav_unknown(doc):
    m, p, k, lane, v = _first(doc)
    doc["events"][0] = (m, p, k, lane, "0Q")


def ax_wav_id(wid):
    def f(doc):
        doc["wav"][wid] = f"s_{wid}.ogg"
        m, p, k, lane, v = _first(doc)
        doc["events"][0] = (m, p, k, lane, wid)

    return f


def ax_order(o):
    def f(doc):
        doc["order"] = o
        # make sure several lines exist
        doc["events"].append((1, F(1, 2), "note", 0, "02"))
        doc["events"].append((2, F(0), "note", 1, "01"))

    return f


def ax_split_rev(doc):
    ax_split(doc)
    doc["split"] = "reversed"


def ax_split(doc):
    doc["split"] = True
    m, p, k, lane, v = _first(doc)
    doc["events"].append((m, p + F(1, 3) if p + F(1, 3) < 1 else F(1, 3), "note", lane, "02"))


def ax_misc(doc):
    doc["misc"] = {"PLAYER": "1", "RANK": "2", "GENRE": "some genre", "TOTAL": "300"}
    doc["header"]["TITLE"] = "a b c"


def ax_text(title, wavname):
    def f(doc):
        doc["header"]["TITLE"] = title
        doc["header"]["ARTIST"] = title[::-1].strip() or "a"
        if wavname:
            doc["wav"]["01"] = wavname
    return f


AXES = [
    # header text: ASCII characters whose Shift-JIS variants differ ('~' and '\\'), kana/kanji, a second byte 0x5C (ソ, 表)
    ("text", [("tilde-backslash", ax_text("x ~mix~ \\ y", "se\\kick~1.wav")), ("kana-kanji", ax_text("日本語 テスト", "音.wav")), ("second-byte-5c", ax_text("ソ表 x", ""))]),
    ("layout", [(n, ax_layout(n)) for n in ("BMS", "PMS", "PMS_BME", "PMS_5B")]),
    ("bpm", [("90.5", ax_bpm("90.5"))]),
    ("measure", [(str(m), ax_measure(m)) for m in (1, 2, 5)]),
    ("subdiv", [(str(n), ax_subdiv(n)) for n in (2, 3, 4, 8, 16, 17, 96)]),
    (
        "t03",
        [
            ("m1", ax_t03([(1, F(0), "3C")])),
            ("mid", ax_t03([(0, F(1, 2), "B4")])),
            ("at00", ax_t03([(0, F(0), "3C")])),
            ("two", ax_t03([(0, F(1, 4), "F0"), (2, F(0), "3C")])),
            ("lower", ax_t03([(1, F(0), "b4")], True)),
        ],
    ),
    ("t08", [("m1q", ax_t08([(1, F(1, 4), "01")], {"01": "133.337"})), ("two", ax_t08([(0, F(1, 2), "0A"), (2, F(0), "02")], {"0A": "90.5", "02": "187.5"})), ("at00", ax_t08([(0, F(0), "01")], {"01": "60.001"})), ("id-lower-0b", ax_t08([(1, F(1, 2), "0b")], {"0b": "150.5"})),
             # ids that begin with a letter of the header's own name (#BPMB1, #BPMPM, #BPMMB) and the last id ZZ
             ("ids-BPM-letters", ax_t08([(1, F(0), "B1"), (1, F(1, 2), "PM"), (2, F(0), "MB")], {"B1": "60.5", "PM": "241.25", "MB": "99.75"})), ("id-ZY", ax_t08([(1, F(1, 4), "ZY")], {"ZY": "77.7"}))]),
    ("ln", [("same-measure", ax_ln(0, F(3, 4))), ("next-measure", ax_ln(1, F(1, 2))), ("obj0A", ax_ln(2, F(0), "0A"))]),
    ("wav", [("unknown", ax_wav_unknown), ("id-1A", ax_wav_id("1A")), ("id-Z9", ax_wav_id("Z9")), ("id-10", ax_wav_id("10")), ("name-with-space", lambda doc: doc["wav"].update({"01": "my file 1.wav"})), ("id-lower-0a", ax_wav_id("0a")), ("id-WA", ax_wav_id("WA")), ("id-AV", ax_wav_id("AV"))]),
    ("order", [(o, ax_order(o)) for o in ("reversed", "tempo_last", "by_channel")]),
    ("split", [("on", ax_split), ("later-part-first", ax_split_rev)]),
    ("misc", [("on", ax_misc)]),
]


def el(m, p, kind, lane, v, ln_end=None):
    def f(doc, slot):
        lanes = len(LANE_CH[doc["layout"]])
        doc["events"].append((m, p, kind, None if lane is None else min(lane, lanes - 1), v))
        if ln_end:
            doc["events"].append((ln_end[0], ln_end[1], "ln_end", min(lane, lanes - 1), None))

    return f


ELEMENTS = [
    ("note-other-lane", el(0, F(1, 2), "note", 3, "02")),
    ("note-later", el(1, F(1, 4), "note", 1, "02")),
    ("hold", el(0, F(1, 4), "note", 2, "01", (1, F(1, 2)))),
    ("hold-long", el(2, F(0), "note", 0, "02", (4, F(3, 8)))),
    ("t03@m1", el(1, F(0), "t03", None, "5A")),
    ("note@m4", el(4, F(5, 16), "note", 4, "01")),
]


def finalize(doc):
    if any(k == "ln_end" for _, _, k, _, _ in doc["events"]):
        doc["lnobj"] = doc["lnobj"] or "ZZ"
        doc["events"] = [(m, p, k, lane, doc["lnobj"] if k == "ln_end" else v) for m, p, k, lane, v in doc["events"]]
    # validity: per lane, in time order, an LN end needs a preceding plain object; no two events in one (measure,pos,lane/kind)
    seen = set()
    for m, p, k, lane, v in doc["events"]:
        key = (m, p, "tempo" if k in ("t03", "t08") else lane)
        if key in seen:
            doc["_invalid"] = "two events in one cell"
        seen.add(key)
    if doc["lnobj"]:
        for m, p, k, lane, v in doc["events"]:
            if k == "note" and v.upper() == doc["lnobj"].upper():
                doc["_invalid"] = "note id equals LNOBJ"
    lanes = {}
    for m, p, k, lane, v in sorted(doc["events"], key=lambda e: (e[0], e[1])):
        if k == "note":
            lanes.setdefault(lane, []).append("n")
        elif k == "ln_end":
            st = lanes.setdefault(lane, [])
            if not st or st[-1] != "n":
                doc["_invalid"] = "LN end without a preceding object"
            else:
                st[-1] = "h"


def render(doc):
    """Renders the abstract document into BMS text lines (list of str)."""
    out = []
    for k, v in doc["header"].items():
        out.append(f"#{k} {v}")
    for k, v in doc["misc"].items():
        out.append(f"#{k} {v}")
    if doc["lnobj"]:
        out.append(f"#LNOBJ {doc['lnobj']}")
    for k, v in doc["exbpm"].items():
        out.append(f"#BPM{k} {v}")
    for k, v in doc["wav"].items():
        out.append(f"#WAV{k} {v}")
    out.append("")
    chans = LANE_CH[doc["layout"]]
    groups = {}
    for ei, (m, p, k, lane, v) in enumerate(doc["events"]):
        ch = "03" if k == "t03" else "08" if k == "t08" else chans[lane]
        groups.setdefault((m, ch), []).append((p, v.lower() if (k == "t03" and doc["lower"]) else v, ei))
    lines = []
    for (m, ch), evs in groups.items():
        parts = [evs]
        if doc["split"] and len(evs) >= 2:
            evs = sorted(evs, key=lambda e: e[0])
            parts = [evs[:1], evs[1:]]
            if doc["split"] == "reversed":
                parts = parts[::-1]  # the line holding the later objects comes first in the file
        for part in parts:
            n = 1
            for p, _, _ in part:
                n = n * p.denominator // math.gcd(n, p.denominator)
            seq = ["00"] * n
            for p, v, _ in part:
                seq[int(p * n)] = v
            lines.append((m, ch, f"#{m:03d}{ch}:" + "".join(seq)))
    tempo = ("03", "08")
    if doc["order"] == "sorted":
        lines.sort(key=lambda x: (x[0], x[1]))
    elif doc["order"] == "reversed":
        lines.sort(key=lambda x: (x[0], x[1]), reverse=True)
    elif doc["order"] == "tempo_last":
        lines.sort(key=lambda x: (x[1] in tempo, x[0], x[1]))
    elif doc["order"] == "by_channel":
        lines.sort(key=lambda x: (x[1], x[0]))
    return out + [l for _, _, l in lines]


def denote(doc):
    """(hits [(col, t, sample)], holds [(col, t, len, sample)]) by construction."""
    bpm0 = F(doc["header"]["BPM"])
    tch = []
    for m, p, k, lane, v in doc["events"]:
        if k == "t03":
            tch.append((m + p, F(int(v, 16))))
        elif k == "t08":
            tch.append((m + p, F(doc["exbpm"][v])))
    tch.sort(key=lambda x: x[0])
    segs = [(F(0), F(0), bpm0)]
    for pos, b in tch:
        p0, t0, b0 = segs[-1]
        segs.append((pos, t0 + (pos - p0) * 4 * F(60000) / b0, b))

    def T(p):
        act = [s for s in segs if s[0] <= p][-1]
        return act[1] + (p - act[0]) * 4 * F(60000) / act[2]

    per = {}
    for m, p, k, lane, v in doc["events"]:
        if k in ("note", "ln_end"):
            per.setdefault(lane, []).append((m + p, k, v))
    hits, holds = [], []
    for lane, evs in per.items():
        evs.sort(key=lambda x: x[0])
        prev = []
        for pos, k, v in evs:
            if k == "ln_end":
                hp, hv = prev.pop()
                holds.append((lane, T(hp), T(pos) - T(hp), doc["wav"].get(hv, "")))
            else:
                prev.append((pos, v))
        hits += [(lane, T(pos), doc["wav"].get(v, "")) for pos, v in prev]
    return sorted(hits), sorted(holds)


def bound(tier, seed):
    docs = builder.staircase(AXES, ELEMENTS, STAIRS[tier])
    return dict(stairs=[dict(max_deviations=k, max_depth=d) for k, d in STAIRS[tier]], axes={a: [l for l, _ in v] for a, v in AXES}, elements=[l for l, _ in ELEMENTS], documents=len(docs), lane_probes=sum(len(v) for v in LANE_CH.values()))


CHUNK = 40
_DOCS = {}


def _docs(tier):
    if tier not in _DOCS:
        _DOCS[tier] = builder.staircase(AXES, ELEMENTS, STAIRS[tier])
    return _DOCS[tier]


GRID_SUBDIV = [1, 2, 3, 4, 5, 6, 7, 8, 9, 11, 12, 13, 16, 17, 24, 32, 48, 64, 96, 192, 101, 125, 384, 480, 1000]  # the last five: beat fractions with denominators beyond 100


B36 = "0123456789ABCDEFGHIJKLMNOPQRSTUVWXYZ"
LARGE = dict(quick=[(40, 30), (900, 600)], thorough=[(40, 30), (900, 600), (999, 1200)])


def check_large(measures, n_ids, ctx):
    """size: `measures` measures with 6 objects each over 8 lanes (long notes closed by the LNOBJ in the next measure), n_ids
    sample ids and n_ids//4 extended tempo ids (two-character base-36 ids far beyond 0Z), a tempo change every 7th measure
    (integer and extended in turn)."""
    doc = default_doc()
    ids = [a + b for a in B36 for b in B36 if a + b not in ("00", "ZZ")]
    doc["wav"] = {i: f"s{k}.wav" for k, i in enumerate(ids[:n_ids])}
    ex = ids[: max(1, n_ids // 4)]
    doc["exbpm"] = {i: f"{100 + (k * 7) % 140}.5" for k, i in enumerate(ex)}
    doc["lnobj"] = "ZZ"
    wl = list(doc["wav"])
    ev, k = [], 0
    for m in range(measures):
        for j in range(6):
            lane = (m + j) % 8
            pos = F((j * 5 + m) % 16, 16)
            if (m * 6 + j) % 17 == 8 and m + 1 < measures:
                ev += [(m, pos, "note", lane, wl[k % len(wl)]), (m + 1, F(0) if lane != (m + 1) % 8 else F(1, 32), "ln_end", lane, "ZZ")]
            else:
                ev.append((m, pos, "note", lane, wl[k % len(wl)]))
            k += 1
        if m % 7 == 3:
            ev.append((m, F(1, 2), "t03", None, "%02X" % (60 + (m * 3) % 180)) if m % 14 == 3 else (m, F(1, 4), "t08", None, ex[(m // 7) % len(ex)]))
    # one lane holds one object per position: keep the first of each clash (ends before notes)
    out, seen = [], set()
    for e in sorted(ev, key=lambda e: (e[0], e[1], 0 if e[2] == "ln_end" else 1)):
        key = (e[0], e[1], e[3]) if e[2] in ("note", "ln_end") else None
        if key is not None and key in seen:
            continue
        seen.add(key)
        out.append(e)
    # drop long-note ends whose head was dropped, and heads that would swallow a later note before their end
    doc["events"] = _wellformed_lns(out)
    check_doc(doc, dict(devs=[f"large={measures}/{n_ids}"], elems=[]), dict(large=[measures, n_ids]), ctx, key=("large", measures, n_ids))


def _wellformed_lns(ev):
    """With #LNOBJ an end marker closes the previous object of its lane: keep an end only if the object right before it in its
    lane is a note of the previous measure (its intended head); otherwise drop the end."""
    bylane = {}
    for e in sorted(ev, key=lambda e: (e[0], e[1])):
        if e[2] in ("note", "ln_end"):
            bylane.setdefault(e[3], []).append(e)
    drop = set()
    for lane, es in bylane.items():
        for i, e in enumerate(es):
            if e[2] == "ln_end":
                prev = es[i - 1] if i else None
                if prev is None or prev[2] != "note" or prev in drop or prev[0] != e[0] - 1:
                    drop.add(e)
    return [e for e in ev if e not in drop]


def roots(tier, seed):
    n = len(_docs(tier))
    return [dict(kind="large", args=list(a)) for a in LARGE[tier]] + [dict(kind="lanes")] + [dict(kind="grid", n=k) for k in GRID_SUBDIV] + [dict(kind="docs", start=s, stop=min(n, s + CHUNK)) for s in range(0, n, CHUNK)]


def check_grid(n, ctx):
    """An object in EVERY slot of a line of n slots (two lanes, two measures), with a tempo change between them."""
    doc = default_doc()
    doc["events"] = [(1, F(i, n), "note", 1, "01" if i % 2 else "02") for i in range(n)] + [(2, F(i, n), "note", 3, "01") for i in range(0, n, 2)] + [(2, F(0), "t03", None, "5A")]
    check_doc(doc, dict(devs=[f"grid={n}"], elems=[]), dict(grid=n), ctx, key=("grid", n))


def explore(root, tier, ctx):
    if root["kind"] == "large":
        check_large(root["args"][0], root["args"][1], ctx)
        return
    if root["kind"] == "grid":
        check_grid(root["n"], ctx)
        return
    if root["kind"] == "lanes":
        for name, chans in LANE_CH.items():
            for lane in range(len(chans)):
                doc = default_doc()
                doc["layout"] = name
                doc["events"] = [(1, F(1, 4), "note", lane, "01"), (2, F(0), "note", lane, "02"), (2, F(1, 2), "ln_end", lane, "ZZ")]
                doc["lnobj"] = "ZZ"
                check_doc(doc, dict(devs=[f"layout={name}", f"lane={lane}"], elems=[]), dict(lane_probe=[name, lane]), ctx)
        return
    docs = _docs(tier)
    for i in range(root["start"], root["stop"]):
        devs, seq = docs[i]
        check(devs, seq, ctx)


def replay(case, ctx):
    if "grid" in case:
        check_grid(case["grid"], ctx)
    elif "large" in case:
        check_large(case["large"][0], case["large"][1], ctx)
    elif "lane_probe" in case:
        name, lane = case["lane_probe"]
        doc = default_doc()
        doc["layout"] = name
        doc["events"] = [(1, F(1, 4), "note", lane, "01"), (2, F(0), "note", lane, "02"), (2, F(1, 2), "ln_end", lane, "ZZ")]
        doc["lnobj"] = "ZZ"
        check_doc(doc, dict(devs=[f"layout={name}", f"lane={lane}"], elems=[]), dict(lane_probe=[name, lane]), ctx)
    else:
        check(tuple(tuple(x) for x in case["devs"]), tuple(case["seq"]), ctx)


def check(devs, seq, ctx):
    doc = builder.build(default_doc, AXES, ELEMENTS, devs, seq, finalize)
    lab = builder.label(AXES, ELEMENTS, devs, seq)
    if doc.get("_invalid"):
        ctx.extra["skipped_ill_formed_documents"] += 1
        return
    ctx.depth(len(seq))
    check_doc(doc, lab, dict(devs=[list(d) for d in devs], seq=list(seq)), ctx, nontrivial=bool(devs or seq), key=(devs, seq))


def close(a, b):
    return abs(a - b) <= TOL + 1e-12 * abs(b)


def check_doc(doc, lab, case, ctx, nontrivial=True, key=None):
    from reamber.bms import BMSMap

    lines = render(doc)
    case = dict(case, label=lab, text="\n".join(lines))
    ctx.case()
    ctx.state(("bms", key if key is not None else repr(case.get("lane_probe"))), nontrivial=nontrivial)
    if len(ctx.samples) < 1 and len(lab["devs"]) == 2:
        ctx.sample(dict(label=lab, text=lines[-6:]))
    hits, holds = denote(doc)
    # oracle self-check: the independent interpreter agrees with the denotation by construction
    ref = rb.parse("\n".join(lines), doc["layout"])
    ok_ref = [(c, round(t, 6), w or "") for c, t, w in ref["hits"]] == [(c, round(float(t), 6), w) for c, t, w in sorted(hits, key=lambda x: (x[1], x[0]))]
    ctx.extra["oracle_selfcheck_ok" if ok_ref and not ref["syntax"] else "oracle_selfcheck_MISMATCH"] += 1
    unsorted_lines = doc["order"] != "sorted" or doc["split"]
    site = dict(devs=sorted({a.split("=")[0] for a in lab["devs"]}), unsorted_lines=unsorted_lines, has_ln=bool(holds))
    ctx.transition()
    try:
        m = BMSMap.read(lines, rb.lib_layout(doc["layout"]))
    except Exception as e:
        ctx.check("raises", False, site=dict(site, exc=type(e).__name__), case=case, observed=f"{type(e).__name__}: {e}"[:300], expected="a chart")
        return
    ctx.passed("raises")
    if len(lab["devs"]) <= 1 or any(d.startswith("layout=") for d in lab["devs"]):
        # the file entry point: read_file(path, layout) of a file holding these lines denotes what read(lines, layout) gave
        fileio.check_file_entry_points(ctx, "bms", "\r\n".join(lines), m, canon.canon_map, dict(route="file-entry", layout=doc["layout"]), case,
                                       read_kw=dict(note_channel_config=rb.lib_layout(doc["layout"])), check_write=False)
    got_h = sorted((int(c), float(t), (s.decode("shift_jis", errors="backslashreplace") if isinstance(s, bytes) else str(s))) for t, c, s in zip(m.hits.offset.tolist(), m.hits.column.tolist(), m.hits.sample.tolist()))
    got_l = sorted((int(c), float(t), float(l), (s.decode("shift_jis", errors="backslashreplace") if isinstance(s, bytes) else str(s))) for t, c, l, s in zip(m.holds.offset.tolist(), m.holds.column.tolist(), m.holds.length.tolist(), m.holds.sample.tolist()))
    exp_h = [(c, float(t), w) for c, t, w in hits]
    exp_l = [(c, float(t), float(l), w) for c, t, l, w in holds]
    ctx.outcome((tuple((c, round(t, 4)) for c, t, _ in got_h), tuple((c, round(t, 4), round(l, 4)) for c, t, l, _ in got_l)))
    pairing_ok = len(got_h) == len(exp_h) and len(got_l) == len(exp_l) and sorted(c for c, *_ in got_l) == sorted(c for c, *_ in exp_l)
    ctx.check("ln.pairing", pairing_ok, site=site, case=case, observed=dict(hits=len(got_h), holds=[(c, t, l) for c, t, l, _ in got_l]), expected=dict(hits=len(exp_h), holds=[(c, t, l) for c, t, l, _ in exp_l]))
    if pairing_ok:
        ctx.check("column", [c for c, *_ in got_h] == [c for c, *_ in exp_h], site=dict(site, layout=doc["layout"]), case=case, observed=[c for c, *_ in got_h], expected=[c for c, *_ in exp_h])
        if [c for c, *_ in got_h] == [c for c, *_ in exp_h]:
            bad = [(a, b) for a, b in zip(got_h, exp_h) if not close(a[1], b[1])]
            ctx.check("time.hit", not bad, site=site, case=case, observed=[a for a, _ in bad][:4], expected=[b for _, b in bad][:4])
            bads = [(a, b) for a, b in zip(got_h, exp_h) if a[2] != b[2]]
            ctx.check("sample", not bads, site=site, case=case, observed=[a for a, _ in bads][:4], expected=[b for _, b in bads][:4])
        bad = [(a, b) for a, b in zip(got_l, exp_l) if not close(a[1], b[1])]
        ctx.check("time.hold", not bad, site=site, case=case, observed=[a for a, _ in bad][:4], expected=[b for _, b in bad][:4])
        bad = [(a, b) for a, b in zip(got_l, exp_l) if not close(a[2], b[2])]
        ctx.check("hold.len", not bad, site=site, case=case, observed=[a for a, _ in bad][:4], expected=[b for _, b in bad][:4])
        bads = [(a, b) for a, b in zip(got_l, exp_l) if a[3] != b[3]]
        ctx.check("sample", not bads, site=site, case=case, observed=[a for a, _ in bads][:4], expected=[b for _, b in bads][:4])

    def tx(v):
        return v.decode("shift_jis", errors="backslashreplace") if isinstance(v, bytes) else str(v)

    hdr = dict(title=tx(m.title), artist=tx(m.artist), level=tx(m.version), bpm0=float(m.bpms.bpm.tolist()[0]) if len(m.bpms) else None)
    exp_hdr = dict(title=doc["header"]["TITLE"], artist=doc["header"]["ARTIST"], level=doc["header"]["PLAYLEVEL"])
    ctx.check("header.retained", all(hdr[k] == v for k, v in exp_hdr.items()), site=dict(site, what="title/artist/level"), case=case, observed=hdr, expected=exp_hdr)
    ex_got = {tx(k): float(v) for k, v in m.exbpms.items()}
    ex_exp = {k: float(v) for k, v in doc["exbpm"].items()}
    ctx.check("header.retained", ex_got == ex_exp, site=dict(site, what="exbpms"), case=case, observed=ex_got, expected=ex_exp)
    misc_got = {tx(k): tx(v) for k, v in m.misc.items()}
    ctx.check("header.retained", all(misc_got.get(k) == v for k, v in doc["misc"].items()), site=dict(site, what="misc"), case=case, observed=misc_got, expected=doc["misc"])
    if doc["lnobj"]:
        ctx.check("header.retained", tx(m.ln_end_channel) == doc["lnobj"], site=dict(site, what="lnobj"), case=case, observed=tx(m.ln_end_channel), expected=doc["lnobj"])
    # initial tempo: compared only for files without tempo events (reading reseats tempo lists and may rewrite bpm values)
    if not any(k in ("t03", "t08") for _, _, k, _, _ in doc["events"]):
        b0 = [b for t, b in zip(m.bpms.offset.tolist(), m.bpms.bpm.tolist()) if abs(t) < 1e-9]
        ctx.check("header.retained", bool(b0) and abs(b0[0] - float(doc["header"]["BPM"])) < 1e-9, site=dict(site, what="initial tempo"), case=case, observed=b0, expected=float(doc["header"]["BPM"]))
