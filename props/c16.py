"""C16 — timed lists behave like ordered collections of their rows.

Explicit-state BFS over operation histories. State = (live TimedList, twin = plain Python list of row dicts).
Transition = one real list operation, mirrored on the twin. In every state all observers are compared with the twin.
"""
from __future__ import annotations

import copy
import importlib
import inspect
import itertools
import pkgutil

import numpy as np
import pandas as pd

from mc import core
from mc.canon import canon_list, val, NAN

ID = "C16"
LARGE = dict(quick="40-row lists for every class; 1500-row lists (unsorted and sorted) for four representative classes", thorough="40- and 1500-row lists for every class")
TITLE = "Timed lists behave like ordered collections of their rows"
RULE = (
    "history BFS: state = canonical TimedList (class, columns, dtypes, row labels, exact cells) reached from a constructor by a "
    "sequence of list operations; a state is non-trivial when it has >=2 rows and was reached by >=1 operation"
)
ASSUMPTIONS = [
    "pandas 2.3.3 / numpy 1.26.4 as installed",
    "sort ties: rows with equal offsets may come out in either order (DESIGN §7.14); the twin adopts the library's order inside tie runs",
    "values compared by value (int 3 == float 3.0); holds in the palette have non-negative lengths",
]

ADOPT = "<adopt>"  # twin cell whose value the property leaves open; filled from the library on construction
OFFS = [2.25, -1.5, 0.0, 0.0]  # unsorted, negative, fractional, duplicates
BOUNDS = [-1.5, 0.0, 1.0, 2.25, 3.75]
TENTH_OFFS = [0.1, 0.7, 1000 / 3, 0.1]
TENTH_LENS = [0.2, 0.1, 0.1, 0.7]
# bounds one ulp around the tails/heads of those rows
TENTH_BOUNDS = [0.1, 0.3, 0.1 + 0.2, 0.7999999999999999, 0.8, 1000 / 3 + 0.1]


def bound(tier, seed):
    return dict(
        depth=DEPTH[tier],
        offsets=OFFS,
        filter_bounds=BOUNDS,
        start_states="items(4 rows), single item, DataFrame, other list, [], from_dict x3, empty(0|1|3)",
        classes="every concrete TimedList subclass found by walking the reamber package",
    )


DEPTH = dict(quick=2, thorough=3)


# ---- class discovery -----------------------------------------------------------------------------
def list_classes():
    import reamber
    from reamber.base.lists.TimedList import TimedList

    out = {}
    for mod in pkgutil.walk_packages(reamber.__path__, "reamber."):
        if "playField" in mod.name or "parse_replay" in mod.name:
            continue
        try:
            m = importlib.import_module(mod.name)
        except Exception:
            continue
        for n, o in vars(m).items():
            if inspect.isclass(o) and issubclass(o, TimedList) and o.__module__.startswith("reamber"):
                out[o.__module__ + "." + o.__name__] = o
    return dict(sorted(out.items()))


def usable(cls):
    ic = cls._item_class()
    return inspect.isclass(ic) and not inspect.isabstract(cls)


def is_hold(cls):
    from reamber.base.lists.notes.HoldList import HoldList

    return issubclass(cls, HoldList)


def mk_kwargs(cls, off, i):
    """Row i of the contents palette for this class: a dict prop -> value."""
    props = cls._item_class()._props
    kw = {}
    for j, (k, (dt, default)) in enumerate(props.items()):
        # odd rows get a value that differs from the default AND from every other property's value (1 + position of the property)
        if k == "offset":
            kw[k] = off
        elif k == "column":
            kw[k] = i % 3
        elif k == "length":
            kw[k] = [1.5, 0.0, 2.0, 0.5][i % 4]
        elif k == "bpm":
            kw[k] = [120.0, 90.5][i % 2]
        elif k == "multiplier":
            kw[k] = [1.0, 0.5][i % 2]
        elif isinstance(default, bool):
            kw[k] = bool(i % 2)
        elif isinstance(default, int) and dt in ("int", int):
            kw[k] = default + (i % 2) * (1 + j)
        elif isinstance(default, float):
            kw[k] = default + 0.5 * (i % 2) * (1 + j)
        elif isinstance(default, str):
            kw[k] = default if i % 2 == 0 else f"s{i}_{k}"
        elif isinstance(default, bytes):
            kw[k] = default if i % 2 == 0 else b"0" + bytes([65 + i])
        elif isinstance(default, list):
            kw[k] = [] if i % 2 == 0 else [f"k{i}"]
        else:
            kw[k] = copy.deepcopy(default)
    return kw


def twin_row(kw):
    return {k: val(v) for k, v in kw.items()}


# ---- start states ----------------------------------------------------------------------------------
CTORS = ["items4", "items2", "single", "df", "list", "nil", "from_dict_rows", "from_dict_cols", "from_dict_min", "empty0", "empty1", "empty3"]
# size: lists beyond the small-array fast paths of the sorting and indexing machinery (thorough: 1500 rows)
BIG = {"items40": 40, "items1500": 1500, "sorted40": 40, "sorted1500": 1500}


def big_offsets(n):
    """Deterministic, unsorted, with duplicates, negative and fractional values, all exactly representable."""
    return [((i * 37) % 101) * 0.25 - 5.0 for i in range(n)]


def construct(cls, ctor):
    """Returns (live list, twin rows, default_filled) or raises the library's exception."""
    ic = cls._item_class()
    props = ic._props
    if ctor in BIG:
        offs = big_offsets(BIG[ctor])
        if ctor.startswith("sorted"):
            offs = sorted(offs)  # built in time order: the state a chart read from a file is in
        kws = [mk_kwargs(cls, o, i) for i, o in enumerate(offs)]
        return cls([ic(**copy.deepcopy(k)) for k in kws]), [twin_row(k) for k in kws]
    if ctor == "tenths":
        # values that are not exact in binary (tenths, a third): 0.1 + 0.2 is not 0.3; the tail of a hold is offset + length
        kws = [mk_kwargs(cls, o, i) for i, o in enumerate(TENTH_OFFS)]
        for kw, ln in zip(kws, TENTH_LENS):
            if "length" in kw:
                kw["length"] = ln
        return cls([ic(**copy.deepcopy(k)) for k in kws]), [twin_row(k) for k in kws]
    kws = [mk_kwargs(cls, o, i) for i, o in enumerate(OFFS)]
    if ctor == "items4":
        return cls([ic(**copy.deepcopy(k)) for k in kws]), [twin_row(k) for k in kws]
    if ctor == "items2":
        return cls([ic(**copy.deepcopy(k)) for k in kws[:2]]), [twin_row(k) for k in kws[:2]]
    if ctor == "single":
        return cls(ic(**copy.deepcopy(kws[1]))), [twin_row(kws[1])]
    if ctor == "df":
        base = cls([ic(**copy.deepcopy(k)) for k in kws])
        return cls(base.df.copy()), [twin_row(k) for k in kws]
    if ctor == "list":
        base = cls([ic(**copy.deepcopy(k)) for k in kws[:3]])
        return cls(base), [twin_row(k) for k in kws[:3]]
    if ctor == "nil":
        return cls([]), []
    if ctor == "from_dict_rows":
        return cls.from_dict([copy.deepcopy(k) for k in kws[:3]]), [twin_row(k) for k in kws[:3]]
    if ctor == "from_dict_cols":
        d = {p: [copy.deepcopy(k[p]) for k in kws[:3]] for p in props}
        return cls.from_dict(d), [twin_row(k) for k in kws[:3]]
    if ctor == "from_dict_min":
        # only the keys without which a row is meaningless; all other fields must take the declared default
        req = [p for p in ("offset", "column", "length", "bpm") if p in props]
        rows = [{p: kws[i][p] for p in req} for i in range(2)]
        tw = [{p: val(rows[i][p]) if p in req else ADOPT for p in props} for i in range(2)]
        return cls.from_dict(rows), tw
    if ctor.startswith("empty"):
        n = int(ctor[5:])
        # the property fixes the fields and the number of rows of empty(n), not the cell values: adopt them
        return cls.empty(n), [{p: ADOPT for p in props} for _ in range(n)]
    raise KeyError(ctor)


def adopt(l, tw):
    """Fills ADOPT cells of a freshly constructed twin from the live list (only where lengths agree)."""
    if not any(v == ADOPT for r in tw for v in r.values()) or len(l) != len(tw):
        return tw
    props = list(tw[0]) if tw else []
    obs = lib_rows(l, props)
    return [{p: (obs[i][p] if r[p] == ADOPT else r[p]) for p in props} for i, r in enumerate(tw)]


# ---- operations -------------------------------------------------------------------------------------
def operations(cls, tier, bounds=None):
    hold = is_hold(cls)
    BOUNDS_ = bounds or BOUNDS
    ops = [("sorted", False), ("sorted", True), ("deepcopy",)]
    for i in (1, 2):
        for s in (False, True):
            ops.append(("append_item", i, s))
    ops.append(("append_list", False))
    ops.append(("append_list", True))
    ops.append(("append_self", False))
    ops.append(("append_empty", False))
    ops.append(("append_empty", True))
    ops.append(("empty_append", False))
    for b in BOUNDS_:
        for inc in (False, True):
            if hold:
                for flag in (False, True):
                    ops.append(("after", b, inc, flag))
                    ops.append(("before", b, inc, flag))
            else:
                ops.append(("after", b, inc))
                ops.append(("before", b, inc))
    for lo, hi in ((-1.5, 2.25), (0.0, 0.0), (0.0, 3.75), (1.0, 0.0)) if bounds is None else ((0.1, 0.1 + 0.2), (0.3, 0.8), (0.1 + 0.2, 0.7999999999999999), (0.1, 1000 / 3 + 0.1)):
        for ends in ((True, False), (False, True), (True, True), (False, False)):
            if hold:
                for head, tail in ((True, False), (False, True), (True, True), (False, False)):
                    ops.append(("between", lo, hi, ends, head, tail))
            else:
                ops.append(("between", lo, hi, ends))
        if not hold:
            ops.append(("between", lo, hi, True))
            ops.append(("between", lo, hi, False))
            # the two flags given as a list instead of a tuple
            ops.append(("between", lo, hi, ("list", False, True)))
            ops.append(("between", lo, hi, ("list", True, False)))
    for sl in ((1, None, None), (None, -1, None), (None, None, 2), (1, 3, None), (None, None, -1), (0, 0, None)):
        ops.append(("slice", sl))
    ops.append(("mask", "alt"))
    ops.append(("mask", "none"))
    return ops


def apply_lib(cls, l, op):
    ic = cls._item_class()
    k = op[0]
    if k == "sorted":
        return l.sorted(reverse=op[1])
    if k == "deepcopy":
        return l.deepcopy()
    if k == "append_item":
        return l.append(ic(**copy.deepcopy(mk_kwargs(cls, [0.0, 1.0, -3.5][op[1]], op[1] + 4))), sort=op[2])
    if k == "append_list":
        other = cls([ic(**copy.deepcopy(mk_kwargs(cls, o, i + 6))) for i, o in enumerate((5.5, -1.5))])
        return l.append(other, sort=op[1])
    if k == "append_self":
        return l.append(l, sort=op[1])
    if k == "append_empty":
        return l.append(cls([]), sort=op[1])
    if k == "empty_append":
        return cls([]).append(l, sort=op[1])
    if k == "after":
        return l.after(op[1], include_end=op[2], include_tail=op[3]) if len(op) == 4 else l.after(op[1], include_end=op[2])
    if k == "before":
        return l.before(op[1], include_end=op[2], include_head=op[3]) if len(op) == 4 else l.before(op[1], include_end=op[2])
    if k == "between":
        if len(op) == 6:
            return l.between(op[1], op[2], include_ends=op[3], include_head=op[4], include_tail=op[5])
        ends = op[3]
        if isinstance(ends, tuple) and ends and ends[0] == "list":
            ends = list(ends[1:])
        return l.between(op[1], op[2], include_ends=ends)
    if k == "slice":
        return l[slice(*op[1])]
    if k == "mask":
        n = len(l)
        m = np.array([(i % 2 == 0) if op[1] == "alt" else False for i in range(n)], dtype=bool)
        return l[m]
    raise KeyError(op)


def _key_after(r, tail):
    return r["offset"] + (r.get("length", 0.0) if tail else 0.0)


def _key_before(r, head):
    return r["offset"] + (r.get("length", 0.0) if not head else 0.0)


def apply_twin(cls, rows, op):
    """Returns (rows, sorted_flag) where sorted_flag in (None, 'asc', 'desc') says ties may be permuted."""
    k = op[0]
    rows = [dict(r) for r in rows]
    if k == "sorted":
        return sorted(rows, key=lambda r: r["offset"], reverse=op[1]), ("desc" if op[1] else "asc")
    if k == "deepcopy":
        return rows, None
    if k == "append_item":
        rows = rows + [twin_row(mk_kwargs(cls, [0.0, 1.0, -3.5][op[1]], op[1] + 4))]
        return (sorted(rows, key=lambda r: r["offset"]), "asc") if op[2] else (rows, None)
    if k == "append_list":
        rows = rows + [twin_row(mk_kwargs(cls, o, i + 6)) for i, o in enumerate((5.5, -1.5))]
        return (sorted(rows, key=lambda r: r["offset"]), "asc") if op[1] else (rows, None)
    if k == "append_self":
        rows = rows + [dict(r) for r in rows]
        return rows, None
    if k in ("append_empty", "empty_append"):
        return (sorted(rows, key=lambda r: r["offset"]), "asc") if op[1] else (rows, None)
    if k == "after":
        tail = op[3] if len(op) == 4 else False
        return [r for r in rows if (_key_after(r, tail) >= op[1] if op[2] else _key_after(r, tail) > op[1])], None
    if k == "before":
        head = op[3] if len(op) == 4 else True
        return [r for r in rows if (_key_before(r, head) <= op[1] if op[2] else _key_before(r, head) < op[1])], None
    if k == "between":
        ends = op[3]
        if isinstance(ends, tuple) and ends and ends[0] == "list":
            ends = tuple(ends[1:])
        if isinstance(ends, bool):
            ends = (ends, ends)
        head, tail = (op[4], op[5]) if len(op) == 6 else (True, False)
        rows = [r for r in rows if (_key_after(r, tail) >= op[1] if ends[0] else _key_after(r, tail) > op[1])]
        rows = [r for r in rows if (_key_before(r, head) <= op[2] if ends[1] else _key_before(r, head) < op[2])]
        return rows, None
    if k == "slice":
        return rows[slice(*op[1])], None
    if k == "mask":
        return [r for i, r in enumerate(rows) if (i % 2 == 0 if op[1] == "alt" else False)], None
    raise KeyError(op)


# ---- observers ----------------------------------------------------------------------------------------
def lib_rows(l, props):
    """Rows of the live list by value, declared props only (missing column -> '<missing>')."""
    df = l.df
    cols = {p: (df[p].tolist() if p in df.columns else ["<missing>"] * len(df)) for p in props}
    return [{p: val(cols[p][i]) for p in props} for i in range(len(df))]


def item_vals(it, props):
    out = {}
    for p in props:
        try:
            out[p] = val(getattr(it, p))
        except Exception as e:
            out[p] = f"<{type(e).__name__}>"
    return out


def resync_ties(obs, tw, direction):
    """If obs is a permutation of tw that only reorders rows inside runs of equal offset, return obs (adopted), else None."""
    if len(obs) != len(tw):
        return None
    offs_o = [r["offset"] for r in obs]
    offs_t = [r["offset"] for r in tw]
    if offs_o != offs_t:
        return None
    key = lambda r: repr(sorted(r.items()))
    for off in set(offs_t):
        a = sorted(key(r) for r in obs if r["offset"] == off)
        b = sorted(key(r) for r in tw if r["offset"] == off)
        if a != b:
            return None
    return obs


def observe(cls, name, l, tw, hist, ctx):
    """All observers of one state against the twin. Returns False if the state is unusable for further exploration."""
    props = list(cls._item_class()._props)
    hold = is_hold(cls)
    site0 = dict(cls=name)
    case = lambda: dict(cls=name, history=hist)
    n = len(tw)

    def guarded(clause, fn, expected, extra_site=None, cmp=None):
        try:
            got = fn()
        except Exception as e:
            ctx.check(clause, False, site=dict(site0, exc=type(e).__name__, empty=(n == 0), **(extra_site or {})), case=case,
                      observed=f"{type(e).__name__}: {e}"[:300], expected=expected)
            return None
        ok = (got == expected) if cmp is None else cmp(got, expected)
        ctx.check(clause, ok, site=dict(site0, empty=(n == 0), **(extra_site or {})), case=case, observed=got, expected=expected)
        return got

    # declared fields, nothing more (and nothing less)
    cols = [str(c) for c in l.df.columns]
    extra = sorted(set(cols) - set(props))
    missing = sorted(set(props) - set(cols))
    ctx.check("fields.exact", not extra and not missing, site=dict(site0, extra=extra, missing=missing), case=case,
              observed=cols, expected=props)
    guarded("observe.len", lambda: len(l), n)
    # content in order
    rows = lib_rows(l, props)
    ok_rows = ctx.check("observe.rows", rows == tw, site=site0, case=case, observed=rows, expected=tw)
    # column getters
    for p in props:
        guarded("observe.column_getter", lambda p=p: [val(x) for x in getattr(l, p).tolist()], [r[p] for r in tw], dict(prop=p))
    # positional indexing, positive and negative (every index for lists up to 64 rows; for longer ones the ends, the
    # neighbourhoods of 256 / 1024 and every 97th index - the rows themselves are all compared above)
    if n <= 64:
        idxs = range(-n, n)
    else:
        pos = set(range(0, 20)) | set(range(n - 20, n)) | set(range(0, n, 97)) | {i for c in (256, 1024) for i in range(c - 2, c + 3) if i < n}
        idxs = sorted(pos | {i - n for i in pos})
    for i in idxs:
        def get(i=i):
            it = l[i]
            d = item_vals(it, props)
            ex = sorted(set(map(str, it.data.index)) - set(props))
            ctx.check("item.fields", not ex, site=dict(site0, extra=ex), case=case, observed=sorted(map(str, it.data.index)), expected=props)
            if type(it) is not cls._item_class():
                d["<type>"] = type(it).__name__
            return d
        guarded("observe.getitem", get, tw[i], dict(neg=i < 0))
    # out-of-range must not silently succeed
    for i in (n, -n - 1):
        try:
            l[i]
            ctx.check("observe.getitem_oob", False, site=site0, case=case, observed="no error", expected="IndexError")
        except Exception:
            ctx.passed("observe.getitem_oob")
    # iteration (long lists: the first 64 items and the number of items)
    if n <= 64:
        guarded("observe.iter", lambda: [item_vals(it, props) for it in l], tw)
    else:
        guarded("observe.iter", lambda: [item_vals(it, props) for it in itertools.islice(iter(l), 64)], tw[:64])
    # first / last
    if n:
        fo = min(r["offset"] for r in tw)
        lo = max((r["offset"] + r["length"]) if hold else r["offset"] for r in tw)
    else:
        fo = lo = None
    guarded("observe.first_offset", lambda: val(l.first_offset()), fo)
    guarded("observe.last_offset", lambda: val(l.last_offset()), lo)
    guarded("observe.first_last_offset", lambda: [val(x) for x in l.first_last_offset()], [fo, lo])
    if hold and n:
        guarded("observe.tail_offset", lambda: [val(x) for x in l.tail_offset.tolist()], [r["offset"] + r["length"] for r in tw])
    ctx.check("observe.type", type(l) is cls, site=site0, case=case, observed=type(l).__name__, expected=cls.__name__)
    # an undeclared extra column does not stop the exploration (rows are compared on declared fields); a missing one does
    return ok_rows and not missing


# ---- search --------------------------------------------------------------------------------------------
def roots(tier, seed):
    out = []
    for name, cls in list_classes().items():
        if not usable(cls):
            continue
        big = tier == "thorough" or name.rsplit(".", 1)[-1] in ("OsuHitList", "SMHoldList", "QuaBpmList", "BMSHitList")
        for ctor in CTORS + ["tenths", "items40", "sorted40"] + (["items1500", "sorted1500"] if big else []):
            out.append(dict(cls=name, ctor=ctor))
    return out


def _cls(name):
    mod, _, n = name.rpartition(".")
    return getattr(importlib.import_module(mod), n)


def build(cls, name, hist, ctx=None):
    """Rebuilds (live, twin) by replaying a history on fresh objects. Returns (l, tw) or None if a step fails."""
    l, tw = construct(cls, hist[0])
    tw = adopt(l, tw)
    for op in hist[1:]:
        op = _tup(op)
        l = apply_lib(cls, l, op)
        tw2, srt = apply_twin(cls, tw, op)
        if srt:
            adopted = resync_ties(lib_rows(l, list(cls._item_class()._props)), tw2, srt)
            tw2 = adopted if adopted is not None else tw2
        tw = tw2
    return l, tw


def _tup(op):
    return tuple(tuple(x) if isinstance(x, list) else x for x in op)


def step(cls, name, l, tw, op, hist, ctx):
    """One transition on a copy of the live object. Returns (l2, tw2) or None."""
    props = list(cls._item_class()._props)
    case = lambda: dict(cls=name, history=hist + [op])
    opname = op[0]
    ctx.transition()
    try:
        l2 = apply_lib(cls, l, op)
    except Exception as e:
        ctx.check("op.raises", False, site=dict(cls=name, op=opname, exc=type(e).__name__, empty=(len(tw) == 0)), case=case,
                  observed=f"{type(e).__name__}: {e}"[:300], expected="no exception")
        return None
    ctx.passed("op.raises")
    tw2, srt = apply_twin(cls, tw, op)
    if srt:
        obs = lib_rows(l2, props)
        adopted = resync_ties(obs, tw2, srt)
        ctx.check("op.sort", adopted is not None, site=dict(cls=name, op=opname), case=case, observed=obs, expected=tw2)
        if adopted is None:
            return None
        tw2 = adopted
    else:
        # every transition is judged, also one whose result state was reached before by another operation
        # (the state-level observers below run once per distinct state)
        obs = lib_rows(l2, props)
        if not ctx.check("op.rows", obs == tw2, site=dict(cls=name, op=opname), case=case, observed=obs[:8], expected=tw2[:8]):
            return None
    return l2, tw2


def probe_alias(cls, short, l, tw, op, hist, ctx):
    """A plain sequence operation returns a NEW sequence: editing the result must not show in the receiver. Two edits, each on a
    result of its own: (a) columns assigned through the setters, (b) in place - `+=` on a column and a positional cell store -
    which shows shared arrays (a positional slice is a view by pandas' rules and is left out of (b)).
    The receiver is observed again after each."""
    props = list(cls._item_class()._props)
    for mode in ("setter", "inplace"):
        if mode == "inplace" and op[0] == "slice":
            continue
        try:
            la = l.deepcopy()
            r = apply_lib(cls, la, op)
        except Exception:
            return
        ctx.transition(2)
        try:
            if mode == "setter":
                r.offset = r.offset + 1000.25
                if is_hold(cls):
                    r.length = r.length + 7.0
            else:
                x = r.offset
                x += 0.5
                if len(r):
                    r.df.iloc[0, list(r.df.columns).index("offset")] = -777.0
        except Exception:
            continue
        obs = lib_rows(la, props)
        ctx.check("receiver.after_result_edit", obs == tw, site=dict(cls=short, op=op[0], edit=mode), case=lambda: dict(cls=short, history=hist + [op, ("alias",)]), observed=obs, expected=tw)


def probe_inplace(cls, short, l, tw, hist, ctx):
    """Second use of ONE list object: observe it (anything the list caches is now warm), assign new offsets (and lengths) through
    the column setters in place, observe again. A value remembered from before the edit would show here."""
    if len(tw) == 0:
        return
    try:
        lc = l.deepcopy()
    except Exception:
        return
    if not observe(cls, short, lc, tw, hist + [("inplace.warm",)], ctx):
        return
    ctx.transition()
    tw2 = [dict(r) for r in tw]
    try:
        lc.offset = lc.offset + 0.75
        for r in tw2:
            r["offset"] = val(r["offset"] + 0.75)
        if is_hold(cls):
            lc.length = lc.length * 2
            for r in tw2:
                r["length"] = val(r["length"] * 2)
    except Exception as e:
        ctx.check("op.raises", False, site=dict(cls=short, op="inplace", exc=type(e).__name__, empty=False), case=dict(cls=short, history=hist + [("inplace",)]), observed=f"{type(e).__name__}: {e}"[:300], expected="no exception")
        return
    observe(cls, short, lc, tw2, hist + [("inplace",)], ctx)


def explore(root, tier, ctx):
    name = root["cls"]
    cls = _cls(name)
    short = name.rsplit(".", 1)[-1]
    ctor = root["ctor"]
    depth = DEPTH[tier]
    ctx.transition()
    try:
        l0, tw0 = construct(cls, ctor)
        tw0 = adopt(l0, tw0)
    except Exception as e:
        ctx.check("ctor.raises", False, site=dict(cls=short, ctor=ctor, exc=type(e).__name__),
                  case=dict(cls=name, history=[ctor]), observed=f"{type(e).__name__}: {e}"[:300], expected="a list")
        return
    ctx.passed("ctor.raises")
    ops = operations(cls, tier, bounds=TENTH_BOUNDS if ctor == "tenths" else None)
    # thorough depth 3 is only affordable from the richest start state; the others stay at depth 2
    if tier == "thorough" and ctor not in ("items4", "empty3", "from_dict_rows"):
        depth = 2
    if ctor in BIG:
        depth = 1
    frontier = [(l0, tw0, [ctor])]
    seen = set()
    k0 = core.h64(canon_list(l0))
    seen.add(k0)
    ctx.state(k0)
    ctx.case()
    good = observe(cls, short, l0, tw0, [ctor], ctx)
    ctx.outcome((short, tuple(map(repr, tw0))))
    if not good:
        return
    probe_inplace(cls, short, l0, tw0, [ctor], ctx)
    ctx.sample(dict(cls=short, history=[ctor], rows=tw0))
    for d in range(1, depth + 1):
        nxt = []
        for l, tw, hist in frontier:
            for op in ops:
                r = step(cls, short, l, tw, op, hist, ctx)
                if r is None:
                    continue
                if d == 1 and op[0] != "deepcopy":
                    probe_alias(cls, short, l, tw, op, hist, ctx)
                l2, tw2 = r
                k = core.h64(canon_list(l2))
                if k in seen:
                    continue
                seen.add(k)
                ctx.state(k, nontrivial=len(tw2) >= 2)
                ctx.case()
                ctx.depth(d)
                h2 = hist + [op]
                ok = observe(cls, short, l2, tw2, h2, ctx)
                if ok and d == 1:
                    probe_inplace(cls, short, l2, tw2, h2, ctx)
                ctx.outcome((short, tuple(map(repr, tw2))))
                if ok and d < depth:
                    nxt.append((l2, tw2, h2))
                if d == depth and len(ctx.samples) < 3 and len(tw2) >= 3:
                    ctx.sample(dict(cls=short, history=h2, rows=tw2))
        frontier = nxt


def replay(case, ctx):
    name = case["cls"].rsplit(".", 1)[-1]
    full = [n for n in list_classes() if n.endswith("." + name)]
    cls = _cls(full[0])
    hist = [case["history"][0]] + [_tup(o) for o in case["history"][1:]]
    ctor = hist[0]
    try:
        l, tw = construct(cls, ctor)
        tw = adopt(l, tw)
    except Exception as e:
        ctx.check("ctor.raises", False, site=dict(cls=name, ctor=ctor, exc=type(e).__name__), case=case,
                  observed=f"{type(e).__name__}: {e}"[:300], expected="a list")
        return
    h = [ctor]
    observe(cls, name, l, tw, h, ctx)
    ops = hist[1:]
    for i, op in enumerate(ops):
        if str(op[0]).startswith("inplace"):
            probe_inplace(cls, name, l, tw, h, ctx)
            return
        if i + 1 < len(ops) and ops[i + 1][0] == "alias":
            probe_alias(cls, name, l, tw, op, h, ctx)
            return
        r = step(cls, name, l, tw, op, h, ctx)
        h = h + [op]
        if r is None:
            return
        l, tw = r
        observe(cls, name, l, tw, h, ctx)
