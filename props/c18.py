"""C18 — hitsound copy moves sounds, never notes, and loses nothing it promises to keep.

Function enumeration on the real hitsound_copy: every source of <=2/3 sounding notes (times x sound atoms x volumes x hit/hold) against
every target of a fixed family (0..6 notes at the source's times, hits and holds, with/without sounds of its own, with/without an
event sample). Oracle: conservation clauses on per-time sound counters."""
from __future__ import annotations

import collections
import itertools

from mc import canon

ID = "C18"
TITLE = "Hitsound copy moves sounds, never notes, and loses nothing it promises to keep"
RULE = (
    "function enumeration: a state is a distinct (source note multiset, target); a transition is one hitsound_copy call; "
    "non-trivial = the source has >=2 sounds at one time or the target lacks capacity"
)
ASSUMPTIONS = [
    "a 'hitsound' is a clap/finish/whistle bit or a named sample file on a note; sample-set/addition-set numbers are not claimed",
    "capacity of a time = number of target notes at that time; demand = sum over source volume groups of max(claps,finishes,whistles)+files",
    "'as many as the target can hold' is checked in its weak form: when capacity >= demand nothing may be lost",
]
TECHNIQUE = "exhaustive finite-domain enumeration of hitsound_copy on the real code (all small sources x a target family) against conservation clauses on per-time sound counters"
LEVEL_TEXT = (
    "Every source multiset of <=2 notes over times {0,100} x 6 sound atoms (none, clap, finish|whistle, clap+file a, file a, file b) x volumes "
    "{0,30} (+60 thorough) x {hit,hold}, plus every 3-note source at one time (quick) / all 3-note sources (thorough), against 12 targets "
    "(0..6 notes at 0 ms, notes at 100/200 ms, holds, sounds of its own, an event sample of its own); clauses: same notes, no invented sound, "
    "per-time multiplicity, nothing lost when capacity suffices, every named sample on a note or an event sample at its time, both inputs "
    "snapshot-identical."
)
LEVEL_NOTE = "Bounded palettes (2 times, 6 sound atoms, 3 volumes). Volumes of copied sounds are not part of the property and are not compared."

C, FI, W = 2, 4, 8
ATOMS = [(0, ""), (C, ""), (FI | W, ""), (C, "a"), (0, "a"), (0, "b")]
TIMES = (0, 100)


def src_atoms(tier, times):
    vols = (0, 30) if tier == "quick" else (0, 30, 60)
    return [(t, a, v) for t in times for a in range(len(ATOMS)) for v in vols]


def sources(tier):
    out = []
    full = src_atoms(tier, TIMES)
    for k in (1, 2):
        out.extend(itertools.combinations_with_replacement(full, k))
    three = src_atoms("quick", (0,)) if tier == "quick" else src_atoms("quick", TIMES)
    out.extend(itertools.combinations_with_replacement(three, 3))
    return out


# target notes: (kind, time, column, hitsound_set, file, volume) ; second element: event samples [(time, file, volume)]
TARGETS = [
    ("one", [("hit", 0, 0, 0, "", 0)], []),
    ("two", [("hit", 0, 0, 0, "", 0), ("hit", 0, 1, 0, "", 0)], []),
    ("three", [("hit", 0, 0, 0, "", 0), ("hit", 0, 1, 0, "", 0), ("hit", 0, 2, 0, "", 0)], []),
    ("hit+hold,100", [("hit", 0, 0, 0, "", 0), ("hold", 0, 1, 0, "", 0), ("hit", 100, 2, 0, "", 0)], []),
    ("only100", [("hit", 100, 0, 0, "", 0)], []),
    ("holds", [("hold", 0, 0, 0, "", 0), ("hold", 100, 1, 0, "", 0)], []),
    ("spread", [("hit", 0, 0, 0, "", 0), ("hit", 0, 1, 0, "", 0), ("hit", 100, 2, 0, "", 0), ("hit", 100, 3, 0, "", 0), ("hit", 200, 0, 0, "", 0)], []),
    ("six", [("hit", 0, c, 0, "", 0) for c in range(6)] + [("hit", 100, c, 0, "", 0) for c in range(6)], []),
    ("own_sounds", [("hit", 0, 0, C, "", 0), ("hit", 100, 1, 0, "z", 0)], []),
    ("own_late", [("hit", 0, 0, 0, "", 0), ("hit", 200, 1, W, "", 40)], []),
    ("own_event", [("hit", 0, 0, 0, "", 0), ("hit", 0, 1, 0, "", 0)], [(0, "e.wav", 50)]),
    ("empty_holds", [("hit", 0, 0, 0, "", 0), ("hit", 100, 0, 0, "", 0)], []),
    ("zero_length_hold", [("hold0", 0, 0, 0, "", 0), ("hit", 0, 1, 0, "", 0), ("hold0", 100, 2, 0, "", 0)], []),
    ("reversed_rows", [("hit", 200, 0, 0, "", 0), ("hit", 100, 1, 0, "", 0), ("hold", 100, 2, 0, "", 0), ("hit", 0, 3, 0, "", 0), ("hold", 0, 0, 0, "", 0)], []),
]


# size: charts of hundreds of times; the target has notes at every second source time only (two per time, a hit and a hold)
LARGE = dict(quick=[40, 400], thorough=[17, 40, 400, 1500])


def large_target(n):
    notes = []
    for k in range(0, n, 2):
        notes += [("hit", 100 * k, k % 4, 0, "", 0), ("hold" if k % 3 else "hit", 100 * k, (k + 1) % 4, 0, "", 0)]
    return notes


def large_source(n):
    """(time, atom, volume) - one to three sounding notes per time, named samples first, in the middle and last"""
    pats = [(1, 3, 5), (4, 2), (5,), (3, 3), (4, 1, 2)]
    return [[100 * k, a, (0, 30, 60)[(k + j) % 3]] for k in range(n) for j, a in enumerate(pats[k % 5])]


for _n in sorted(set(LARGE["quick"] + LARGE["thorough"])):
    TARGETS.append((f"large{_n}", large_target(_n), []))


def bound(tier, seed):
    return dict(sources=len(sources(tier)), targets=[t[0] for t in TARGETS], times=list(TIMES), atoms=[list(a) for a in ATOMS], volumes=[0, 30] if tier == "quick" else [0, 30, 60], large=LARGE[tier])


CHUNK = 25


def roots(tier, seed):
    n = len(sources(tier))
    return [dict(start=s, stop=min(n, s + CHUNK)) for s in range(0, n, CHUNK)] + [dict(large=k) for k in LARGE[tier]]


_S = {}


def explore(root, tier, ctx):
    if "large" in root:
        ti = [i for i, t in enumerate(TARGETS) if t[0] == f"large{root['large']}"][0]
        check_one(large_source(root["large"]), ti, ctx)
        # and the other way round: the large chart as the source of a small target
        return
    if tier not in _S:
        _S[tier] = sources(tier)
    for i in range(root["start"], root["stop"]):
        src = _S[tier][i]
        for ti in range(len(TARGETS)):
            if TARGETS[ti][0].startswith("large"):
                continue
            check_one([list(x) for x in src], ti, ctx)


def replay(case, ctx):
    check_one(case["src"], case["target"], ctx)


def mk(notes, events=()):
    from reamber.osu import OsuBpm, OsuHit, OsuHold, OsuMap
    from reamber.osu.OsuSample import OsuSample
    from reamber.osu.lists import OsuBpmList, OsuSampleList
    from reamber.osu.lists.notes import OsuHitList, OsuHoldList

    m = OsuMap()
    m.bpms = OsuBpmList([OsuBpm(0, 120)])
    m.hits = OsuHitList([OsuHit(t, c, hitsound_set=hs, hitsound_file=f, volume=v) for (k, t, c, hs, f, v) in notes if k == "hit"])
    m.holds = OsuHoldList([OsuHold(t, c, 50 if k == "hold" else 0, hitsound_set=hs, hitsound_file=f, volume=v) for (k, t, c, hs, f, v) in notes if k in ("hold", "hold0")])
    if events:
        m.samples = OsuSampleList([OsuSample(offset=t, sample_file=f, volume=v) for t, f, v in events])
    return m


def sounds(m):
    out = collections.defaultdict(collections.Counter)
    for l in (m.hits, m.holds):
        for t, hs, f in zip(l.offset.tolist(), l.hitsound_set.tolist(), l.hitsound_file.tolist()):
            t = float(t)
            for bit, name in ((C, "clap"), (FI, "finish"), (W, "whistle")):
                if int(hs) & bit:
                    out[t][name] += 1
            if f:
                out[t]["file:" + str(f)] += 1
    return out


def notes_of(m):
    return sorted([("hit", float(t), int(c), None) for t, c in zip(m.hits.offset.tolist(), m.hits.column.tolist())] + [("hold", float(t), int(c), float(l)) for t, c, l in zip(m.holds.offset.tolist(), m.holds.column.tolist(), m.holds.length.tolist())], key=repr)


def check_one(src_desc, ti, ctx):
    from reamber.algorithms.osu.hitsound_copy import hitsound_copy

    tname, tnotes, tevents = TARGETS[ti]
    case = dict(src=src_desc, target=ti, target_name=tname)
    s_notes = [("hold" if i % 2 else "hit", t, i, ATOMS[a][0], ATOMS[a][1], v) for i, (t, a, v) in enumerate(src_desc)]
    # demand / capacity per time
    demand = collections.Counter()
    for t in {n[1] for n in s_notes}:
        vg = collections.defaultdict(lambda: [0, 0, 0, 0])
        for k, tt, c, hs, f, v in s_notes:
            if tt != t:
                continue
            vg[v][0] += bool(hs & C)
            vg[v][1] += bool(hs & FI)
            vg[v][2] += bool(hs & W)
            vg[v][3] += bool(f)
        demand[t] = sum(max(a, b, c) + d for a, b, c, d in vg.values())
    cap = collections.Counter(n[1] for n in tnotes)
    own = any(n[3] or n[4] for n in tnotes)
    tight = any(demand[t] > cap[t] for t in demand)
    ctx.state(("c18", tuple(map(tuple, src_desc)), ti), nontrivial=tight or any(v >= 2 for v in demand.values()))
    if tight and len(src_desc) == 3 and len(ctx.samples) < 1:
        ctx.sample(case)
    site = dict(target_has_own_sounds=own)
    src, tgt = mk(s_notes), mk(tnotes, tevents)
    b_src, b_tgt = canon.canon_map(src), canon.canon_map(tgt)
    ctx.transition()
    ctx.case()
    try:
        r = hitsound_copy(src, tgt)
    except Exception as e:
        ctx.check("raises", False, site=dict(site, exc=type(e).__name__), case=case, observed=f"{type(e).__name__}: {e}"[:300], expected="a chart")
        return
    ctx.passed("raises")
    ctx.check("inputs.untouched", canon.canon_map(src) == b_src, site=dict(arg="source"), case=case, observed="source changed", expected="identical snapshot")
    ctx.check("inputs.untouched", canon.canon_map(tgt) == b_tgt, site=dict(arg="target"), case=case, observed="target changed", expected="identical snapshot")
    try:
        rn = notes_of(r)
        rs = sounds(r)
        ev = collections.defaultdict(collections.Counter)
        for t, f in zip(r.samples.offset.tolist(), r.samples.sample_file.tolist()):
            ev[float(t)]["file:" + str(f)] += 1
    except Exception as e:
        ctx.check("result.readable", False, site=dict(site, exc=type(e).__name__), case=case, observed=f"{type(e).__name__}: {e}"[:300], expected="note lists with sound fields")
        return
    ss = sounds(src)
    ctx.outcome((tuple(sorted((t, tuple(sorted(c.items()))) for t, c in rs.items())), tuple(sorted((t, tuple(sorted(c.items()))) for t, c in ev.items()))))
    ctx.check("notes.same", rn == notes_of(tgt), site=site, case=case, observed=rn, expected=notes_of(tgt))
    inv = [(t, n) for t, cnt in rs.items() for n, c in cnt.items() if c > 0 and ss.get(t, {}).get(n, 0) == 0]
    ctx.check("no_invention", not inv, site=site, case=case, observed=inv, expected="every sound on a result note is in the source at that time")
    # the event samples are carried by the result too: each one is a named sample of the source at that time, no more often than there
    stray = [(t, n, c, ss.get(t, {}).get(n, 0)) for t, cnt in ev.items() for n, c in cnt.items() if c > ss.get(t, {}).get(n, 0)]
    ctx.check("events.from_source", not stray, site=site, case=case, observed=stray, expected="every event sample of the result is a named sample of the source at that time")
    mult = [(t, n, c, ss.get(t, {}).get(n, 0)) for t, cnt in rs.items() for n, c in cnt.items() if not n.startswith("file:") and ss.get(t, {}).get(n, 0) > 0 and c > ss[t][n]]
    ctx.check("multiplicity", not mult, site=site, case=case, observed=mult, expected="no more claps/finishes/whistles per time than the source")
    lost = []
    for t, cnt in ss.items():
        if cap[t] >= demand[t]:
            for n, c in cnt.items():
                if rs.get(t, {}).get(n, 0) < c:
                    lost.append((t, n, rs.get(t, {}).get(n, 0), c))
    ctx.check("capacity", not lost, site=site, case=case, observed=lost, expected="nothing lost where the target has enough notes")
    gone = []
    for t, cnt in ss.items():
        for n, c in cnt.items():
            if n.startswith("file:") and rs.get(t, {}).get(n, 0) + ev.get(t, {}).get(n, 0) < c:
                gone.append((t, n, rs.get(t, {}).get(n, 0), ev.get(t, {}).get(n, 0), c))
    excess = max((sum(c for n, c in cnt.items() if n.startswith("file:")) for cnt in ss.values()), default=0)
    ctx.check("named.conserved", not gone, site=dict(site, two_or_more_files_at_one_time=excess >= 2), case=case, observed=gone, expected="every named sample on a note or an event sample at its time")
