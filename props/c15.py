"""C15 — a chart is a set of timed objects: results do not depend on row order.

Exhaustive permutation search on real charts of the five games: every permutation of the rows of every list (product over the
lists), realised with permuted row labels and with fresh labels, through every listed operation; oracle = the result for the
permuted chart denotes the same thing as the result for the sorted chart (differential, no hand-written expected value)."""
from __future__ import annotations

import collections
import itertools

from mc import canon, charts, core, fileio

ID = "C15"
LARGE = "chart of 300 notes under five fixed permutations of every list (reversed, rotated, evens-then-odds, stride 7, last-first)"
TITLE = "A chart is a set of timed objects: results do not depend on row order"
RULE = (
    "permutation enumeration: a state is a distinct (game, row permutation of every list, label mode); a transition is one library "
    "operation on the permuted chart; non-trivial = at least one list is out of time order"
)
ASSUMPTIONS = [
    "written osu/Quaver/StepMania files are compared by the denotation the library's own reader gives them (the same reader on both sides), BMS files by the independent interpreter refs/bms.py, as multisets",
    "hitsound copy: which of several notes at one time receives a sound is not fixed; compared are the notes and, per time, the multiset of sounds and event samples",
    "tempo lists read back from BMS are compared as step functions without zero-length segments (DESIGN 7.13)",
    "values are compared by value with relative tolerance 1e-9",
]
TECHNIQUE = "exhaustive enumeration of all row permutations of every list of small real charts through every listed operation; differential oracle f(chart) == f(permuted chart) on denotations"
LEVEL_TEXT = (
    "Charts of osu, Quaver, StepMania, BMS, O2Jam with 3 hits, 2 holds, 3 tempo points (and 2 SVs, a sample event): all 3!*2!*3!(*2!) = "
    "72/144 row permutations of the lists (thorough: also a second shape with a chord, 4 hits, 3 holds, 2 tempo points, 3 SVs: "
    "288/1728 permutations), each with permuted labels and with fresh labels, through write (osu, Quaver, StepMania, BMS; "
    "re-read), every converter, rate, full_ln, hitsound_copy (permuted source and permuted target), dominant_bpm, scroll_speed and "
    "sv_normalize; every result compared as a multiset / step function with the result for the unpermuted chart."
)
LEVEL_NOTE = "Bounded: one chart shape per game with <=3 rows per list; coincident times are not part of this chart (C16/C19 cover ties)."

NOTES = [(500.0, 1, None), (1000.0, 0, None), (3000.0, 1, None), (2000.0, 2, 1000.0), (4000.0, 2, 500.0)]
BPMS = [(0.0, 120.0), (2000.0, 60.0), (6000.0, 120.0)]
SVS = [(100.0, 2.0), (2600.0, 0.5)]
# second shape (thorough tier): a chord, three holds in two columns, two tempo points, three SVs
NOTES2 = [(500.0, 0, None), (500.0, 3, None), (1500.0, 0, None), (2500.0, 3, None), (1000.0, 1, 500.0), (3000.0, 1, 250.0), (2000.0, 2, 2000.0)]
BPMS2 = [(0.0, 90.0), (4000.0, 180.0)]
SVS2 = [(250.0, 0.5), (1250.0, 1.5), (4500.0, 2.0)]
SHAPE = [0]


def hs_chart(target):
    """Shape 3 (osu only): a source whose notes at one time carry sounds at three different volumes, and a target with fewer
    notes at that time than there are sounds - which sounds survive must not depend on the source's row order."""
    from reamber.osu import OsuBpm, OsuHit, OsuMap
    from reamber.osu.lists import OsuBpmList
    from reamber.osu.lists.notes import OsuHitList

    m = OsuMap()
    m.bpms = OsuBpmList([OsuBpm(0, 120)])
    if target:
        m.hits = OsuHitList([OsuHit(1000, 0), OsuHit(2000, 0), OsuHit(2000, 1)])
    else:
        m.hits = OsuHitList([OsuHit(1000, 0, hitsound_set=2, volume=20), OsuHit(1000, 1, hitsound_set=4, volume=60),
                             OsuHit(1000, 2, hitsound_set=8, volume=40), OsuHit(2000, 0, hitsound_set=2, volume=0)])
    return m


def base(game):
    from mc import starts

    if SHAPE[0] == 3:
        return hs_chart(False)

    if SHAPE[0] == 2:
        n, b, v = starts.large_lists(300)
    else:
        n, b, v = (NOTES, BPMS, SVS) if SHAPE[0] == 0 else (NOTES2, BPMS2, SVS2)
    m = charts.make_map(game, n, b, v if game in ("osu", "qua") else (), meta=starts.game_extras(game, "plain"))
    if game == "sm":
        # two stops of different lengths: their rows are permuted like those of every other list
        from reamber.sm.SMStop import SMStop
        from reamber.sm.lists.SMStopList import SMStopList

        m.stops = SMStopList([SMStop(offset=1500.0, length=100.0), SMStop(offset=3500.0, length=250.0)])
    if game == "osu":
        from reamber.osu.OsuSample import OsuSample
        from reamber.osu.lists import OsuSampleList

        m.samples = OsuSampleList([OsuSample(offset=1200.0, sample_file="s.wav", volume=40), OsuSample(offset=700.0, sample_file="t.wav", volume=40)])
        m.hits.df.loc[0, "hitsound_set"] = 2
        m.hits.df.loc[1, "hitsound_file"] = "a.wav"
    return m


def named_perms(n):
    """size: for long lists all n! permutations are out of reach; five fixed ones: reversed, rotated by one, even positions
    then odd ones, a stride-7 shuffle, and the last row moved to the front"""
    if n <= 1:
        return [tuple(range(n))] * 5
    stride = [(i * 7) % n for i in range(n)] if n % 7 else [(i * 11) % n for i in range(n)]
    if len(set(stride)) != n:
        stride = list(range(n))[::-1]
    return [tuple(range(n))[::-1], tuple(range(1, n)) + (0,), tuple(range(0, n, 2)) + tuple(range(1, n, 2)), tuple(stride), (n - 1,) + tuple(range(n - 1))]


def perms_of(m):
    names = list(m.objs)
    sizes = [len(m.objs[k]) for k in names]
    if SHAPE[0] == 2:
        return names, [tuple(named_perms(n)[j] for n in sizes) for j in range(5)]
    return names, list(itertools.product(*[itertools.permutations(range(n)) for n in sizes]))


def permuted(game, perm, names, fresh):
    m = base(game)
    for k, p in zip(names, perm):
        df = m.objs[k].df.iloc[list(p)]
        if fresh == "dup":
            # non-unique row labels (what pd.concat of two frames leaves behind): 0,1,0,1,... on the permuted rows
            df = df.set_axis([j % 2 for j in range(len(df))], axis=0)
        elif fresh:
            df = df.reset_index(drop=True)
        m.objs[k].df = df
    if game == "osu" and len(m.samples) == 2 and perm[0][0] != 0:
        m.samples.df = m.samples.df.iloc[[1, 0]] if not fresh else m.samples.df.iloc[[1, 0]].reset_index(drop=True)
    return m


def bound(tier, seed):
    return dict(games=list(charts.GAMES), shapes=[dict(hits=3, holds=2, bpms=3, svs=2)] + ([dict(hits=4, holds=3, bpms=2, svs=3, chord=True)] if tier == "thorough" else []), label_modes=["permuted labels", "fresh labels", "duplicate labels (0,1,0,1,...)"], permutations_per_game={g: len(perms_of(base(g))[1]) for g in charts.GAMES})


CHUNK = 12


def roots(tier, seed):
    rs = []
    for shape in (0, 1) if tier == "thorough" else (0,):
        SHAPE[0] = shape
        for g in charts.GAMES:
            n = len(perms_of(base(g))[1])
            for s in range(0, n, CHUNK):
                rs.append(dict(game=g, start=s, stop=min(n, s + CHUNK), shape=shape))
    # sounds at several volumes on one time, fewer target notes than sounds: all 24 row orders of the source
    n3 = 24
    for st in range(0, n3, CHUNK):
        rs.append(dict(game="osu", start=st, stop=min(n3, st + CHUNK), shape=3))
    # size: a chart of 300 notes under five fixed permutations of every list
    for g in charts.GAMES:
        rs.append(dict(game=g, start=0, stop=5, shape=2))
    SHAPE[0] = 0
    return rs


# ------------------------------------------------------------------------------------------------- observations
def q(v):
    return round(v, 6) if isinstance(v, float) else v


def notes_key(m):
    return sorted((q(t), q(c), None if l is None else q(l)) for t, c, l in charts.notes_of(m))


def rows_key(l, cols=None):
    return sorted((tuple((k, q(v)) for k, v in sorted(r.items())) for r in canon.rows_by_value(l, cols)), key=repr)


def chart_key(m):
    out = {k: rows_key(l) for k, l in m.objs.items()}
    if hasattr(m, "samples") and hasattr(m.samples, "df"):
        out["samples"] = rows_key(m.samples)
    return out


def step_key(m):
    """Tempo timeline as a step function: sorted (time, bpm) with zero-length segments dropped and equal neighbours merged."""
    pts = sorted(charts.bpms_of(m))
    out = []
    for i, (t, b) in enumerate(pts):
        if i + 1 < len(pts) and abs(pts[i + 1][0] - t) < 1e-6:
            continue
        if out and abs(out[-1][1] - b) < 1e-9:
            continue
        out.append((q(t), q(b)))
    return out


def sounds_key(m):
    per = collections.defaultdict(list)
    for l in (m.hits, m.holds):
        for t, hs, f, v in zip(l.offset.tolist(), l.hitsound_set.tolist(), l.hitsound_file.tolist(), l.volume.tolist()):
            per[q(float(t))].append((int(hs), str(f)))
    return dict(notes=notes_key(m), sounds={t: sorted(v) for t, v in per.items()}, samples=rows_key(m.samples))


def ops_for(game):
    from reamber.algorithms import convert as C
    from reamber.algorithms.analysis import scroll_speed
    from reamber.algorithms.generate import full_ln, sv_normalize
    from reamber.algorithms.osu.hitsound_copy import hitsound_copy
    from reamber.algorithms.utils import dominant_bpm

    def wr(g):
        def f(m):
            if g == "bms":
                # the library's BMS reader pairs LN ends by processing order (C04): use the independent reference interpreter
                from refs import bms as rb

                d = rb.parse(m.write(), "BME")
                return dict(notes=sorted([(q(t), q(float(c)), None) for c, t, w in d["hits"]] + [(q(t), q(float(c)), q(l)) for c, t, l, w in d["holds"]], key=repr), tempo=[(q(t), q(b)) for t, b in rb.step(d["tempo"])], syntax=d["syntax"])
            x = m if g != "sm" else charts.make_mapset("sm", [m], dict(offset=0.0))
            back = fileio.write_read(g, x)
            b = back.maps[0] if g == "sm" else back
            return dict(notes=notes_key(b), tempo=step_key(b), svs=rows_key(b.svs, ["offset", "multiplier"]) if hasattr(b, "svs") else None, samples=rows_key(b.samples) if g == "osu" else None)

        return f

    def conv(fn, wrap=None):
        def f(m):
            r = fn(wrap(m) if wrap else m)
            rs = r if isinstance(r, list) else [r]
            out = []
            for x in rs:
                ms = x.maps if hasattr(x, "maps") else [x]
                out.append([chart_key(y) for y in ms])
            return out

        return f

    if SHAPE[0] == 3:
        return [("hitsound_copy_src", lambda m: sounds_key(hitsound_copy(m, hs_chart(True))))]
    sm_wrap = lambda m: charts.make_mapset("sm", [m], dict(offset=0.0, title="t", artist="ar"))
    o2_wrap = lambda m: charts.make_mapset("o2j", [m], dict(level=[1, 2, 3], title="t", artist="ar"))
    ops = [
        ("rate", lambda m: chart_key(m.rate(1.5))),
        ("full_ln", lambda m: dict(notes=notes_key(full_ln(m, 150, 100)))),
        ("full_ln_0", lambda m: dict(notes=notes_key(full_ln(m, 0, 0)))),
        ("dominant_bpm", lambda m: q(float(dominant_bpm(m)))),
        ("scroll_speed", lambda m: [(q(float(t)), q(float(v))) for t, v in sorted(scroll_speed(m).items())]),
    ]
    if game == "osu":
        ops += [("write", wr("osu")), ("OsuToBMS", conv(C.OsuToBMS.convert)), ("OsuToQua", conv(C.OsuToQua.convert)), ("OsuToSM", conv(C.OsuToSM.convert))]
        ops += [("sv_normalize", lambda m: rows_key(sv_normalize(m), ["offset", "multiplier"]))]
        ops += [("hitsound_copy_src", lambda m: sounds_key(hitsound_copy(m, base("osu")))), ("hitsound_copy_tgt", lambda m: sounds_key(hitsound_copy(base("osu"), m)))]
    elif game == "qua":
        ops += [("write", wr("qua")), ("QuaToBMS", conv(C.QuaToBMS.convert)), ("QuaToOsu", conv(C.QuaToOsu.convert)), ("QuaToSM", conv(C.QuaToSM.convert))]
        ops += [("sv_normalize", lambda m: rows_key(sv_normalize(m), ["offset", "multiplier"]))]
    elif game == "bms":
        ops += [("write", wr("bms")), ("BMSToOsu", conv(C.BMSToOsu.convert)), ("BMSToQua", conv(C.BMSToQua.convert)), ("BMSToSM", conv(C.BMSToSM.convert))]
    elif game == "sm":
        ops += [("write", wr("sm")), ("SMToBMS", conv(C.SMToBMS.convert, sm_wrap)), ("SMToOsu", conv(C.SMToOsu.convert, sm_wrap)), ("SMToQua", conv(C.SMToQua.convert, sm_wrap))]
    elif game == "o2j":
        ops += [("O2JToBMS", conv(C.O2JToBMS.convert, o2_wrap)), ("O2JToOsu", conv(C.O2JToOsu.convert, o2_wrap)), ("O2JToQua", conv(C.O2JToQua.convert, o2_wrap)), ("O2JToSM", conv(C.O2JToSM.convert, o2_wrap))]
    return ops


_REF = {}


def reference(game):
    """Results for the chart with every list in time order (fresh labels)."""
    game_key = (game, SHAPE[0])
    if game_key not in _REF:
        names, _ = perms_of(base(game))
        m0 = base(game)
        order = tuple(tuple(sorted(range(len(m0.objs[k])), key=lambda i: m0.objs[k].offset.tolist()[i])) for k in names)
        out = {}
        for lab, fn in ops_for(game):
            try:
                out[lab] = ("ok", fn(permuted(game, order, names, True)))
            except Exception as e:
                out[lab] = ("exc", type(e).__name__)
        _REF[game_key] = (order, out)
    return _REF[game_key]


def explore(root, tier, ctx):
    g = root["game"]
    SHAPE[0] = root.get("shape", 0)
    names, ps = perms_of(base(g))
    for i in range(root["start"], root["stop"]):
        for fresh in (False, True, "dup"):
            check_perm(g, i, fresh, ctx)
    SHAPE[0] = 0


def replay(case, ctx):
    SHAPE[0] = case.get("shape", 0)
    check_perm(case["game"], case["perm_index"], case["fresh"], ctx, only=case.get("op"))
    SHAPE[0] = 0


def check_perm(g, i, fresh, ctx, only=None):
    names, ps = perms_of(base(g))
    perm = ps[i]
    order, ref = reference(g)
    unsorted_lists = [k for k, p, o in zip(names, perm, order) if tuple(p) != tuple(o)]
    ctx.state(("c15", g, SHAPE[0], perm, fresh), nontrivial=bool(unsorted_lists))
    for lab, fn in ops_for(g):
        if only and lab != only:
            continue
        case = dict(game=g, shape=SHAPE[0], perm_index=i, perm={k: list(p) for k, p in zip(names, perm)}, fresh=fresh, op=lab)
        site = dict(game=g, op=lab)
        ctx.transition()
        ctx.case()
        try:
            got = ("ok", fn(permuted(g, perm, names, fresh)))
        except Exception as e:
            got = ("exc", type(e).__name__)
        ctx.outcome((lab, core.h64(got)))
        if len(ctx.samples) < 1 and len(unsorted_lists) >= 2:
            ctx.sample(case)
        ctx.check("order_independent", got == ref[lab], site=dict(site, unsorted=unsorted_lists if len(unsorted_lists) <= 1 else ["several"]), case=case, observed=first_diff(ref[lab], got), expected="the result for the chart in time order")


def first_diff(a, b):
    if a == b:
        return "same"
    sa, sb = repr(a), repr(b)
    for k in range(min(len(sa), len(sb))):
        if sa[k] != sb[k]:
            return dict(reference=sa[max(0, k - 60) : k + 120], permuted=sb[max(0, k - 60) : k + 120])
    return dict(reference=sa[-150:], permuted=sb[-150:])
